"""C06 — pattern matching of categories succeeds exactly when it should."""
import json
import os
import time
import z3

from vc.sorts import CheckerError, get_world
from vc.pyvc import Interp
from vc import engine
from vc.engine import verify_contract, verify_lemma
from contracts import cat as catc
from contracts import unification as uc

PROP = 'C06'
SPLIT_DEPTH = 8


def setup(pairs=None):
    w = get_world()
    catc.bind_world(w)
    table, impls, virtuals = catc.cat_contracts()
    for c in (uc.ScanDeep(), uc.Rec(), uc.GetItem(), uc.UniCall(pairs)):
        table[c.name] = c
    I = Interp(w, table)
    return w, I, table


def pattern_pairs():
    return sorted({(a, b) for _, _, a, b in uc.harvest_patterns()})


def replay_pair(px, py, inputs):
    if not inputs or any(isinstance(v, str) and v.startswith('<') for v in inputs.values()):
        return dict(reproduced=False, note='model not ground')
    body = ('import json\nfrom vc import twin\nfrom vc.twin import build, check_unification\n'
            f'inputs = json.loads({json.dumps(json.dumps(inputs))})\n'
            'x, y = build(inputs["x"]), build(inputs["y"])\n'
            f'bad = check_unification({px!r}, {py!r}, x, y)\n'
            'print("REPRODUCED" if bad else "NOT-REPRODUCED", repr(x), repr(y), bad)\n')
    rc, out, err = engine.run_real(body)
    return dict(reproduced='REPRODUCED' in out and 'NOT-REPRODUCED' not in out, stdout=out[-1500:], stderr=err[-1500:], script=body)


def run_job(kind, key):
    if kind == 'prefixes':
        px, py = key
        w, I, table = setup([(px, py)])
        c = table['depccg/unification.py::Unification.__call__']
        return dict(job=key, parts=verify_contract(I, c, PROP, list_prefixes=SPLIT_DEPTH), records=[])
    if kind == 'unicall':
        px, py, case, prefix = key
        w, I, table = setup([(px, py)])
        c = table['depccg/unification.py::Unification.__call__']
        recs, npaths = verify_contract(I, c, PROP, only_case=case, prefix=prefix)
        nrep = 0
        for r in recs:
            if r['verdict'] == 'failed' and r.get('inputs') and r.get('case') != 'second-call' and nrep < 2:
                r['replay'] = replay_pair(px, py, r['inputs'])
                nrep += 1
        return dict(job=f'{px} , {py}', records=recs, paths=npaths, lib=sorted(I.used_lib), inlined=sorted(I.inlined))
    w, I, table = setup([])
    if kind == 'contract':
        recs, npaths = verify_contract(I, table[key], PROP)
        return dict(job=key, records=recs, paths=npaths, lib=sorted(I.used_lib), inlined=sorted(I.inlined))
    if kind == 'lemma':
        lt = uc.uni_lemmas(w)
        return dict(job=key, records=verify_lemma(w, lt[key], PROP, lt))
    if kind == 'misc':
        f0 = z3.Const('f0', w.Feat)
        x, y = z3.Const('x', w.Cat), z3.Const('y', w.Cat)
        goal = uc.inv_m(w, z3.K(w.Feat, w.OptFeat.NoF), x, y)(f0)
        v, b, ms, _ = engine.solve(goal, [])
        recs = [dict(name=f'{PROP}/depccg/unification.py::Unification.__call__/inv-init', kind='inv-init', verdict=v, backend=b, ms=ms, inputs=None)]
        # compat is reflexive (used for the completeness clauses of the grammar schemas)
        f = z3.Const('f', w.Feat)
        v, b, ms, _ = engine.solve(uc.compat(w, f, f), [])
        recs.append(dict(name=f'{PROP}/spec::compat_reflexive', kind='lemma', verdict=v, backend=b, ms=ms, inputs=None))
        g = z3.Const('g', w.Feat)
        v, b, ms, _ = engine.solve(uc.compat(w, f, g) == uc.compat(w, g, f), [])
        recs.append(dict(name=f'{PROP}/spec::compat_symmetric', kind='lemma', verdict=v, backend=b, ms=ms, inputs=None))
        return dict(job=key, records=recs)
    raise CheckerError(kind)


def bounded(tier, seed, pairs):
    script = open(os.path.join(engine.VERIF, 'bounded', 'c06_real.py')).read()
    rc, out, err = engine.run_real(script, timeout=1500, env_extra=dict(VERIF_TIER=tier, VERIF_SEED=str(seed), VERIF_PATTERNS=json.dumps(pairs)))
    try:
        return json.loads(out.strip().splitlines()[-1]), None
    except Exception:
        return None, f'CHECKER-ERROR bounded C06 run did not produce a result (rc={rc}): {err[-600:]}'


def deductive_records(prop=PROP):
    """the contract obligations of depccg/unification.py (used by C06 itself, and by C03 / C04 whose rule proofs rest on this contract)"""
    w = get_world()
    pairs = pattern_pairs()
    # the loop summary of Unification.__call__ is computed once here (its obligations are recorded by this run) and
    # inherited by the forked workers
    warm = engine._worker(('props.c06', 'unicall', ('b', 'a\\b', 'b , a\\b', None))) if ('b', 'a\\b') in pairs else dict(records=[])     # (with the job alarm and error capture)
    parts = engine.run_jobs('props.c06', [('prefixes', p) for p in pairs])
    pre_errors = [f"{r['error']} (job {r['job']})" for r in parts if r.get('error')]
    ujobs = []
    for r in parts:
        for case, prefix in r.get('parts', []):
            if (r['job'][0], r['job'][1]) == ('b', 'a\\b') and warm.get('records'):
                continue
            ujobs.append(('unicall', (r['job'][0], r['job'][1], case, prefix)))
    ujobs.sort(key=lambda j: -len(j[1][0]))       # deepest patterns first
    jobs = ujobs + \
           [('contract', uc.ScanDeep().name),
            ('contract', uc.Rec().name),
            ('contract', 'depccg/unification.py::Unification.__getitem__')] + \
           [('lemma', n) for n in uc.uni_lemmas(w)] + [('misc', 'inv-init')]
    results = engine.run_jobs('props.c06', jobs)
    records, errors, lib, inlined = [], list(pre_errors), set(), set()
    paths = 0
    for r in [warm] + results:
        records.extend(x for x in r.get('records', []) if x.get('kind') != 'commute')     # order-independence is C14's obligation
        if r.get('error'):
            errors.append(f"{r['error']} (job {r['job']})")
        lib.update(r.get('lib', []))
        inlined.update(r.get('inlined', []))
        paths += r.get('paths', 0)
    if any('function under contract not found' in e for e in errors):
        # the contracts of this module form one argument: Unification.__call__ is verified against the contracts of its helpers.  When a helper under
        # contract no longer exists (the code was restructured), a refuted obligation of the remaining contracts says nothing about the property:
        # it is undecided unless its counter-model was reproduced on the real code
        for x in records:
            if x['verdict'] == 'failed' and not (x.get('replay') or {}).get('reproduced'):
                x['verdict'] = 'unknown'
                x['detail'] = 'refuted against an incomplete contract set (a helper under contract was not found): undecided, not a violation'
    if prop != PROP:
        for x in records:
            if x['name'].startswith(PROP + '/'):
                x['name'] = prop + '/' + x['name'][len(PROP) + 1:]
    return records, errors, lib, inlined, paths, pairs


def main(tier='quick', seed=0):
    t0 = time.time()
    records, errors, lib, inlined, paths, pairs = deductive_records()
    b, err = bounded(tier, seed, pairs)
    binfo = None
    if err:
        errors.append(err)
    else:
        for i, fl in enumerate(b['failures']):
            records.append(dict(name=f'{PROP}/bounded::{fl["kind"]}#{i}', kind='bounded', verdict='failed', backend='bounded', ms=0, inputs=None,
                                witness=fl, replay=dict(reproduced=True, stdout=json.dumps(fl)), detail=fl))
        binfo = dict(evaluations=b['evaluations'], distinct_nontrivial=b['distinct_nontrivial'], rule=b['rule'], label='bounded (never counted as proved)',
                     samples=[dict(bounded_case='Unification(px,py)(x,y) vs executable spec on perturbed pattern instances')])
    assumptions = [
        'CPython semantics of the encoded subset; z3 / cvc5',
        'dictionary keys f"{v}{index}" are abstracted to (v, index): injective because pattern variables contain no digit (checked on the harvested patterns)',
        'dict/set keyed by features behave as mathematical maps/sets (given C13: hash/eq coherence)',
        'iteration order over the set of shared keys is arbitrary: the loop is verified by a body summary + invariant (init, preservation, exit), so the verdict holds for every order',
        'precondition of the AttributeError-free clause: x and y are over one feature system (a three-part feature compared with a unary one raises in TernaryFeature.unifies; such paths are accepted only when the compared pair is provably mixed)',
        'three-part features: "a variable" is read per component (compatible iff equal, or same keys and in one direction every component is equal or starts with X)',
        'each pattern variable occurs at most once per side (true of every harvested pattern; otherwise CHECKER-ERROR)',
        'structural induction schema for the lemmas; termination of scan/scan_deep/rec: recursive calls are on fields of the argument (checked syntactically)',
        'Category.parse on the literal patterns is executed concretely by the interpreter (re.sub evaluated by CPython)',
    ]
    assumptions.extend(sorted(lib))
    extra = dict(functions_under_contract=['depccg/unification.py::Unification.__init__ (executed concretely per pattern pair)',
                                           'depccg/unification.py::Unification.__call__ (incl. closure scan; once per harvested pattern pair)',
                                           'depccg/unification.py::Unification.__call__.scan_deep', 'depccg/unification.py::Unification.__getitem__',
                                           'depccg/unification.py::Unification.__getitem__.rec',
                                           'depccg/cat.py::UnaryFeature.unifies / is_variable / is_ignorable, TernaryFeature.unifies / is_variable / keys / values / items (inlined into the loop summary)'],
                 pattern_pairs=[list(p) for p in pairs], paths=paths, inlined_callees=sorted(inlined))
    return engine.finish(PROP, tier, seed, t0, records, errors, extra, assumptions, bounded=binfo)
