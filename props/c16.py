"""C16 — the supertag beam is honoured."""
import time
from props import cxx, c12
PROP = 'C16'


def main(tier='quick', seed=0):
    t0 = time.time()
    records, errors, info = cxx.records_for(PROP)
    assumptions = list(cxx.CXX_ASSUMPTIONS) + [
        'priority_queue<pair<float,unsigned>> of one token holds (tag(t,c), c) for all c < num_tags (filled at lines 323-324); the i-th pop is the i-th best pair',
        'leaf items are created only in the leaf loop: every push of the search loop has a non-null left pointer (obligation push-site / pointers)',
    ]
    extra = dict(functions_under_contract=['depccg/parsing.h::parse_sentence (leaf loop 334-359: pruning_size bound, beta threshold, break soundness; search loop: no leaf construction)'] + cxx.HELPER_FUNCTIONS['C16'], cxx=info)
    return c12.finish_with(PROP, tier, seed, t0, records, errors, extra, assumptions, ['search_real.py'])
