"""C08 — the AUTO text reads back to the same tree and re-prints identically.

Deductive part (PyVC, contracts/readers.py): printer and reader meet at the token-level specification toks(t) of the AUTO text.
  printer   depccg/printer/auto.py::auto_of.rec        the text it returns, cut at its literal blanks, is toks(node) (recursive results stand for toks(child))
  reader    depccg/tools/reader.py::_AutoLineReader.parse_leaf / parse_tree / next_node (inlined)
            requires the pieces at the cursor to be toks(t); ensures a tree iso to t (shape, category text, head flags, POS, escaped word) and the cursor behind toks(t);
            the recursive parses are replaced by that contract (structural induction)
  lemmas    next-lemma (the real body of next() on characters: a blank-free piece followed by a blank is returned and skipped), ntoks-positive,
            reprint (iso trees have the same pieces: printing the tree read back reproduces the line)
The conll fragments clause and everything about concrete characters inside fields (escapes) is decided by the bounded run."""
import time

from vc.sorts import CheckerError, get_world
from vc.pyvc import Interp
from vc import engine
from vc.engine import verify_contract
from contracts import cat as catc, printers as pr, readers as rd
from props import c12

PROP = 'C08'


def setup():
    w = get_world()
    catc.bind_world(w)
    table, impls, virtuals = catc.cat_contracts()
    I = Interp(w, table)
    rd.install_reader_env(I)
    cs = [rd.Denormalize(), rd.AutoRec(), rd.ReaderNext(), rd.ReaderCheck(), rd.ReaderPeek(), rd.ParseLeaf(), rd.ParseTree()]
    for c in cs:
        I.contracts[c.name] = c
    return w, I, cs


def run_job(kind, key):
    w, I, cs = setup()
    if kind == 'contract':
        qual, case = key
        c = [x for x in cs if getattr(x, 'role', x.qualname) == qual][0]
        recs, npaths = verify_contract(I, c, PROP, only_case=case)
        for r in recs:
            r['witness'] = dict(function=c.name)
        return dict(job=key, records=recs, paths=npaths, lib=sorted(I.used_lib))
    if kind == 'next-lemma':
        c = rd.NextLemma()
        engine.Z3_MS = 1500          # character-level string lemma: z3's sequence solver rarely decides it, cvc5 --strings-exp does (both are tried)
        recs, npaths = verify_contract(I, c, PROP)
        for r in recs:
            r['name'] = r['name'].replace('_AutoLineReader.next/', '_AutoLineReader.next[next-lemma]/')
            r['witness'] = dict(function=c.name)
        return dict(job=key, records=recs)
    if kind == 'lemmas':
        return dict(job=key, records=rd.reader_lemmas(I, PROP) + pr.tree_view_obligations(I, PROP) + pr.view_lemmas(PROP))
    raise CheckerError(kind)


def main(tier='quick', seed=0):
    t0 = time.time()
    jobs = [('contract', ('auto_of.rec', None)), ('contract', ('_AutoLineReader.parse_leaf', None)), ('contract', ('_AutoLineReader.parse_tree', 'unary')),
            ('contract', ('_AutoLineReader.parse_tree', 'binary')), ('next-lemma', 'next'), ('lemmas', 'pieces')]
    results = engine.run_jobs('props.c08', jobs)
    records, errors = [], []
    for r in results:
        records.extend(r.get('records', []))
        if r.get('error'):
            errors.append(f"{r['error']} (job {r['job']})")
    pr.replay_views(records)
    assumptions = [
        'deductive part: AUTO printer and reader against the token-level specification toks(t) over the tree view (Leaf | Un | Bin with opaque node tags; the view is checked against the real tree.py properties in this check as well); '
        'recursive calls replaced by contracts (structural induction; the induction principle is the meta-rule)',
        'ASSUMED abstraction of the reader cursor: next() / check() / peek() / line[index + k] act on blank-separated pieces (text of a piece = its characters; character k of the piece at the cursor, with an '
        'obligation that the piece is that long); justified by next-lemma (proved on the real body of next() with z3 / cvc5 strings) for fields that are non-empty and blank-free - the precondition of C08 '
        '(printable non-blank tokens); the last piece of a one-word line is not followed by a blank (its value is discarded by parse_leaf)',
        'assumed contracts of callees: Category.parse(str(c)) returns a category with the text str(c) (C05); Tree.make_terminal / make_unary / make_binary build the view they are told to (view lemma of C07); '
        'guess_combinator_by_triplet returns some rule record (C12); Token(**fields) holds its fields; denormalize is an opaque function of the word (the printed word field is denormalize(word), without backslash); '
        'str.replace(a, b) leaves a string without a unchanged',
        'the conll fragment clause, escapes inside fields and the file-level readers (read_auto: ID lines, category fixes) are decided by the BOUNDED stand-in (never counted as proved)',
    ]
    assumptions.append('Category.parse(str(c)) = c is used as a contract of depccg/cat.py: its bounded validation (bounded/c05_real.py: every category up to a size, blanks and redundant brackets, the shipped strings) runs inside this check as well')
    extra = dict(functions_under_contract=['depccg/printer/auto.py::auto_of.rec', 'depccg/tools/reader.py::_AutoLineReader.parse_leaf', 'depccg/tools/reader.py::_AutoLineReader.parse_tree',
                                           'depccg/tools/reader.py::_AutoLineReader.next_node (inlined)', 'depccg/tools/reader.py::_AutoLineReader.next (next-lemma, characters)'],
                 bounded_functions=['depccg/printer/conll.py::conll_of (fragments)', 'depccg/tools/reader.py::read_auto', 'depccg/utils.py::denormalize'])
    return c12.finish_with(PROP, tier, seed, t0, records, errors, extra, assumptions, ['printers_real.py', 'c05_real.py'], level='exploration')
