"""C08 — decided by the bounded real-code run of bounded/printers_real.py (see DESIGN.md)."""
import time
from props import c12
PROP = 'C08'


def main(tier='quick', seed=0):
    t0 = time.time()
    assumptions = [
        'bounded stand-in only: run-time contract decode(encode(t)) = view(t) with independent spec decoders, and the repository readers applied to files the encoders wrote, on enumerated derivations (never counted as proved)',
        'lxml serialise/parse round trip preserves tags, attributes and order for XML-representable strings',
    ]
    extra = dict(functions_under_contract=[], explanation='no contract-level proof was built for this property; the deciding evidence is the bounded run on the real encoders and readers')
    return c12.finish_with(PROP, tier, seed, t0, [], [], extra, assumptions, ['printers_real.py'], level='exploration')
