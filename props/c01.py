"""C01 — A* returns the highest-scoring derivation; popped priorities never increase."""
import time

import z3

from vc.sorts import CheckerError
from vc import engine
from vc.engine import verify_contract
from contracts import grammar as gc
from props import cxx, c12, c03

PROP = 'C01'
GRAMMARS = (('en', 'depccg/grammar/en.py', True), ('ja', 'depccg/grammar/ja.py', False))


class HeadDirection(gc.Combinator):
    """a binary rule of a shipped grammar returns None or a result whose head_is_left is the grammar's one direction (the premise of C01:
    the head of a span is then a function of the span, and first-pop-wins per (span, category) is sound)"""
    def __init__(self, rel, fname, lang, direction):
        gc.Combinator.__init__(self, rel, fname, lang)
        self.direction = direction

    def post(self, I, case, args, result):
        if result is None:
            return z3.BoolVal(True)
        ok, rcat, label, head = gc.decode_result(I, result)
        return z3.BoolVal(bool(ok) and head is self.direction)


def replay_head(rel, fname, direction, inputs):
    import json
    if any(isinstance(v, str) and v.startswith('<') for v in inputs.values()):
        return dict(reproduced=False, note='model not ground')
    mod = rel[:-3].replace('/', '.')
    body = ('import json\nfrom vc import twin\nfrom vc.twin import build\n'
            f'import {mod} as g\n'
            f'inputs = json.loads({json.dumps(json.dumps(inputs))})\n'
            'x, y = build(inputs["x"]), build(inputs["y"])\n'
            f'r = g.{fname}(x, y)\n'
            f'bad = r is not None and r.head_is_left is not {direction!r}\n'
            'print("REPRODUCED" if bad else "NOT-REPRODUCED", twin.str_spec(x), twin.str_spec(y), r)\n')
    rc, out, err = engine.run_real(body)
    return dict(reproduced='REPRODUCED' in out and 'NOT-REPRODUCED' not in out, stdout=out[-800:], stderr=err[-800:], script=body)


def run_job(kind, key):
    lang, rel, direction, name = key
    w, I, table = c03.setup()
    c = HeadDirection(rel, name, lang, direction)
    engine.PREFER[:] = [c03.nice_models(lang)]
    recs, npaths = verify_contract(I, c, PROP)
    for r in recs:
        if r['verdict'] == 'failed' and r.get('inputs'):
            r['replay'] = replay_head(rel, name, direction, r['inputs'])
    out = []
    for r in recs:
        if r['kind'] in ('post', 'vacuity') or r['verdict'] != 'discharged':
            r['name'] = r['name'].replace('/post@', '/head-direction@')
            r['witness'] = dict(function=f'{rel}::{name}', direction='left' if direction else 'right')
            if r['kind'] == 'noraise':
                continue           # exception freedom of the rules is C14's business
            out.append(r)
    return dict(job=key, records=out, paths=npaths)


def main(tier='quick', seed=0):
    t0 = time.time()
    records, errors, info = cxx.records_for(PROP)
    w, I, table = c03.setup()
    jobs = []
    for lang, rel, direction in GRAMMARS:
        for name in c03.combinator_names(I, rel):
            jobs.append(('head', (lang, rel, direction, name)))
    for r in engine.run_jobs('props.c01', jobs):
        records.extend(r.get('records', []))
        if r.get('error'):
            errors.append(f"{r['error']} (job {r['job']})")
    assumptions = list(cxx.CXX_ASSUMPTIONS) + [
        'scores are log-probabilities is NOT needed for the monotonicity obligations (they use only best_tag/best_dep >= every entry); unary_penalty >= 0',
        'pop order: with `every agenda element <= last popped priority` as loop invariant, top() being a maximum (STL contract) and the proved obligation monotone (every push <= the popped priority), the sequence of popped priorities is non-increasing',
        'premise "both shipped grammars share one head direction": every function in the module-level list `combinators` of grammar/en.py returns head_is_left=True and of grammar/ja.py head_is_left=False on every path '
        '(PyVC, head-direction obligations; unary results carry head_is_left=True in both and do not combine two heads)',
        'optimality: A* meta-theorem (monotone priorities, zero estimate for goal items, first-pop-wins per (span, category) when the head is a function of the span, exhaustive combination) is ASSUMED; the clause itself is checked bounded against an exhaustive oracle',
    ]
    extra = dict(functions_under_contract=['depccg/parsing.h::parse_sentence (Inv: span, head, outside estimate, inside bound; monotone pushes at all sites)'] + cxx.HELPER_FUNCTIONS['C01'] +
                 [f'{rel}::{name} (head direction)' for lang, rel, d in GRAMMARS for name in c03.combinator_names(I, rel)], cxx=info)
    return c12.finish_with(PROP, tier, seed, t0, records, errors, extra, assumptions, ['search_real.py'])
