"""C01 — A* returns the highest-scoring derivation; popped priorities never increase."""
import time
from props import cxx, c12
PROP = 'C01'


def main(tier='quick', seed=0):
    t0 = time.time()
    records, errors, info = cxx.records_for(PROP)
    assumptions = list(cxx.CXX_ASSUMPTIONS) + [
        'scores are log-probabilities is NOT needed for the monotonicity obligations (they use only best_tag/best_dep >= every entry); unary_penalty >= 0',
        'pop order: with `every agenda element <= last popped priority` as loop invariant, top() being a maximum (STL contract) and the proved obligation monotone (every push <= the popped priority), the sequence of popped priorities is non-increasing',
        'optimality: A* meta-theorem (monotone priorities, zero estimate for goal items, first-pop-wins per (span, category) when the head is a function of the span, exhaustive combination) is ASSUMED; the clause itself is checked bounded against an exhaustive oracle',
    ]
    extra = dict(functions_under_contract=['depccg/parsing.h::parse_sentence (Inv: span, head, outside estimate, inside bound; monotone pushes at all sites)'] + cxx.HELPER_FUNCTIONS['C01'], cxx=info)
    return c12.finish_with(PROP, tier, seed, t0, records, errors, extra, assumptions, ['search_real.py'])
