"""C13 — categories behave as values."""
import sys
import time
import z3

from vc.sorts import World, CheckerError, get_world
from vc.pyvc import Interp
from vc import engine
from vc.engine import Lemma, verify_contract, verify_lemma
from contracts import cat as catc

PROP = 'C13'


def lemmas(w):
    FS = w.FeatSet
    NF = w.none_feat()
    out = [
        Lemma('strip_idempotent', lambda w, c: w.strip(w.strip(c)) == w.strip(c)),
        Lemma('erase_keeps_skeleton', lambda w, c, N: w.strip(w.erase(c, N)) == w.strip(c), params=[('N', FS)]),
        Lemma('erase_idempotent', lambda w, c, N: w.erase(w.erase(c, N), N) == w.erase(c, N), params=[('N', FS)]),
        Lemma('erase_absorbs_subset', lambda w, c, A, B: w.erase(w.erase(c, A), B) == w.erase(c, B), params=[('A', FS), ('B', FS)],
              hyps=lambda w, A, B: [z3.IsSubset(A, B)]),
        Lemma('erase_empty_is_identity', lambda w, c: w.erase(c, z3.EmptySet(w.Feat)) == c),
        Lemma('erase_removes_only_named', lambda w, c, N, g: z3.Implies(w.hasfeat(w.erase(c, N), g),
                                                                        z3.Or(g == NF, z3.And(z3.Not(z3.IsMember(g, N)), w.hasfeat(c, g)))),
              params=[('N', FS), ('g', w.Feat)]),
        Lemma('erase_keeps_unnamed', lambda w, c, N, g: z3.Implies(z3.And(z3.Not(z3.IsMember(g, N)), w.hasfeat(c, g)), w.hasfeat(w.erase(c, N), g)),
              params=[('N', FS), ('g', w.Feat)]),
        Lemma('erase_removes_all_named', lambda w, c, N, g: z3.Implies(z3.And(z3.IsMember(g, N), g != NF), z3.Not(w.hasfeat(w.erase(c, N), g))),
              params=[('N', FS), ('g', w.Feat)]),
        Lemma('erase_noop_when_absent', lambda w, c, N: z3.Implies(w.erase(c, N) != c, z3.Exists([z3.Const('g', w.Feat)], z3.BoolVal(True))),
              params=[('N', FS)]),
    ]
    return {l.name: l for l in out[:-1]}


def algebra_obligations(w):
    """facts about ^ that follow from its contract (kernel of strip); stated so that a changed contract shows"""
    a, b, c = z3.Consts('a b c', w.Cat)
    x = lambda p, q: w.strip(p) == w.strip(q)
    return {
        'xor_reflexive': (x(a, a), []),
        'xor_symmetric': (x(b, a), [x(a, b)]),
        'xor_transitive': (x(a, c), [x(a, b), x(b, c)]),
        'xor_coarser_than_eq': (x(a, b), [a == b]),
        'eq_reflexive': (a == a, []),
    }


def eq_read_fields(w, cls):
    import ast as _ast
    node = w.cat_classes[cls]
    for st in node.body:
        if isinstance(st, _ast.FunctionDef) and st.name == '__eq__':
            return sorted({n.attr for n in _ast.walk(st) if isinstance(n, _ast.Attribute) and isinstance(n.value, _ast.Name) and n.value.id == 'self'})
    return []


def structural_hash(w):
    """hash/eq coherence from the dataclass decision table (see DESIGN C13): each class must be
    frozen, eq=True, no explicit __hash__, no unsafe_hash, and every hashed field must be compared."""
    recs = []
    for cls in w.feat_ctors + w.cat_ctors:
        info = w.dc[cls]
        ok_hashable = info['frozen'] is True and info['eq'] is True and not info['has_hash']
        hashed = [f['name'] for f in info['fields'] if (f['hash'] is True or (f['hash'] is None and f['compare']))]
        # fields the hand-written __eq__ reads (self.<field> in its body); a hashed field it does not read breaks `equal ==> same hash`
        eq_fields = eq_read_fields(w, cls)
        ok_subset = all(h in eq_fields for h in hashed)
        ok_keeps_eq = info['has_eq']      # hand-written __eq__ is the one under contract
        recs.append(dict(name=f'{PROP}/depccg/cat.py::{cls}/hash-generated-from-compared-fields', kind='structural',
                         verdict='discharged' if (ok_hashable and ok_subset and ok_keeps_eq) else 'failed', backend='pyvc-structural', ms=0,
                         inputs=None, detail=dict(frozen=info['frozen'], eq=info['eq'], explicit_hash=info['has_hash'], hashed=hashed,
                                                  compared=eq_fields), witness={'class': cls}))
    return recs


def setup():
    w = get_world()
    catc.bind_world(w)
    table, impls, virtuals = catc.cat_contracts()
    I = Interp(w, table)
    return w, I, table, impls


def run_job(kind, key):
    w, I, table, impls = setup()
    if kind == 'contract':
        recs, npaths = verify_contract(I, table[key], PROP)
        for r in recs:
            if r['verdict'] == 'failed' and r.get('inputs'):
                r['replay'] = replay(table[key], r)
        return dict(job=key, records=recs, paths=npaths, lib=sorted(I.used_lib), inlined=sorted(I.inlined), used=sorted(I.used_contracts))
    if kind == 'lemma':
        return dict(job=key, records=verify_lemma(w, lemmas(w)[key], PROP))
    if kind == 'algebra':
        recs = []
        for name, (goal, hyps) in algebra_obligations(w).items():
            v, b, ms, model = engine.solve(goal, hyps)
            recs.append(dict(name=f'{PROP}/algebra::{name}', kind='lemma', verdict=v, backend=b, ms=ms, inputs=None))
        return dict(job=key, records=recs)
    if kind == 'structural':
        recs = structural_hash(w)
        for r in recs:
            if r['verdict'] == 'failed':
                r['replay'] = replay_hash(r['witness']['class'])
        return dict(job=key, records=recs)
    raise CheckerError(f'unknown job {kind}')


# ------------------------------------------------------------------ replay on the real code
REPLAY_HEAD = '''
import json, sys
from vc import twin
from vc.twin import build, same, strip, erase, str_spec, feat_text, feat_parse, outcome
from depccg.cat import *
inputs = json.loads(%r)
'''


def replay(contract, rec):
    """run the real method on the solver's model and compare with the executable twin of the contract"""
    import json
    q = contract.qualname
    meth = q.split('.')[1]
    inp = rec['inputs']
    if meth == 'clear_features':
        return replay_clear(contract, rec)
    if any(isinstance(v, str) and v.startswith('<') for v in inp.values()):
        return dict(reproduced=False, note='model not ground')
    body = REPLAY_HEAD % json.dumps(inp)
    body += 'self_ = build(inputs["self"])\n'
    case = rec.get('case')
    if case in ('cat', 'feat'):
        body += 'other = build(inputs["other"])\n'
    elif case == 'str':
        body += 'other = inputs["other"]\n'
    elif case == 'foreign':
        body += 'other = object()\n'
    elif case == 'none':
        body += 'other = None\n'
    if meth == '__eq__':
        body += 'got = outcome(lambda: self_ == other)\n'
        if case in ('cat', 'feat'):
            body += 'want = same(self_, other)\n'
        elif case == 'str' and 'Feature' in q:
            body += 'p = outcome(feat_parse, other)\nwant = (p[0] == "return" and same(self_, p[1]))\n'
        elif case == 'str':
            body += 'want = (str_spec(self_) == other)\n'
        else:
            body += 'want = False\n'
    elif meth == '__xor__':
        body += 'got = outcome(lambda: self_ ^ other)\n'
        body += 'want = same(strip(self_), strip(other)) if isinstance(other, Category) else False\n'
    elif meth == '__str__':
        body += 'got = outcome(lambda: str(self_))\n'
        body += 'want = str_spec(self_) if isinstance(self_, Category) else feat_text(self_)\n'
    elif meth == 'clear_features':
        return replay_clear(contract, rec)
    else:
        return dict(reproduced=False, note='no replay recipe')
    body += 'bad = (got[0] != "return") or (got[1] is not want and got[1] != want) or (type(got[1]) is not type(want))\n'
    body += 'print("REPRODUCED" if bad else "NOT-REPRODUCED", repr(self_), repr(other) if "other" in dir() else "", got, want)\n'
    rc, out, err = engine.run_real(body)
    return dict(reproduced='REPRODUCED' in out and 'NOT-REPRODUCED' not in out, stdout=out[-2000:], stderr=err[-2000:], script=body)


def replay_clear(contract, rec):
    """the model gives a set N of features as an array; try the finitely many features occurring in self plus the absent one"""
    import json
    body = REPLAY_HEAD % json.dumps({'self': rec['inputs']['self']})
    body += '''
self_ = build(inputs["self"])
import itertools
fs = twin.leaves(self_)
names = []
for f in fs:
    t = feat_text(f)
    if t not in names:
        names.append(t)
names += ['X', 'nb']
bad = None
for k in range(0, min(len(names), 3) + 1):
    for sub in itertools.combinations(names, k):
        N = [feat_parse(t) for t in sub]
        got = outcome(lambda: self_.clear_features(*sub))
        want = erase(self_, N)
        if got[0] != 'return' or not same(got[1], want):
            bad = (sub, got, want)
            break
    if bad:
        break
print('REPRODUCED' if bad else 'NOT-REPRODUCED', repr(self_), bad)
'''
    rc, out, err = engine.run_real(body)
    return dict(reproduced='REPRODUCED' in out and 'NOT-REPRODUCED' not in out, stdout=out[-2000:], stderr=err[-2000:], script=body)


def replay_hash(cls):
    body = '''
from depccg.cat import *
import dataclasses
samples = {'Atom': lambda: Atom('S', UnaryFeature('dcl')), 'Functor': lambda: Functor(Atom('S'), '/', Atom('NP')),
           'UnaryFeature': lambda: UnaryFeature('dcl'), 'TernaryFeature': lambda: TernaryFeature(('a','b'),('c','d'),('e','f'))}
mk = samples[%r]
try:
    a, b = mk(), mk()
    s1 = str(a); r1 = repr(a); e1 = (a == s1)        # one of two equal values has been rendered / compared with text, the other not
    ok = (a == b) and hash(a) == hash(b) and (a in {b}) and ({a: 1}.get(b) == 1) and ({b: 1}.get(a) == 1)
    print('NOT-REPRODUCED' if ok else 'REPRODUCED', a, b)
except Exception as e:
    print('REPRODUCED', type(e).__name__, e)
''' % cls
    rc, out, err = engine.run_real(body)
    return dict(reproduced='REPRODUCED' in out and 'NOT-REPRODUCED' not in out, stdout=out[-2000:], stderr=err[-2000:], script=body)


def deductive_records(prop=PROP):
    """the contract obligations of depccg/cat.py (used by C13 itself and by every check whose proofs call Category / Feature methods through these contracts)"""
    w, I, table, impls = setup()
    jobs = [('contract', c.name) for c in impls] + [('lemma', n) for n in lemmas(w)] + [('algebra', 'xor')] + [('structural', 'hash')]
    results = engine.run_jobs('props.c13', jobs)
    records, errors, lib, inlined = [], [], set(), set()
    paths = 0
    for r in results:
        records.extend(r.get('records', []))
        if r.get('error'):
            errors.append(f"{r['error']} (job {r['job']})")
        lib.update(r.get('lib', []))
        inlined.update(r.get('inlined', []))
        paths += r.get('paths', 0)
    if prop != PROP:
        for x in records:
            if x['name'].startswith(PROP + '/'):
                x['name'] = prop + '/' + x['name'][len(PROP) + 1:]
    return records, errors, lib, inlined, paths, impls, w


def main(tier='quick', seed=0):
    t0 = time.time()
    records, errors, lib, inlined, paths, impls, w = deductive_records()
    assumptions = [
        'CPython semantics of the encoded subset (see vc/pyvc.py docstring); unbounded ints; str as SMT-LIB strings',
        'dataclasses: with frozen=True, eq=True and a class-level __eq__, the hand-written __eq__ is kept and __hash__ is generated from the compared fields; hash of str/None/tuple is a function of the value',
        'TernaryFeature fields are pairs of strings (other tuple lengths are outside the model)',
        'structural induction over finite category values (lemma-base / lemma-step schema)',
        'termination of the recursive methods is not proved',
        'z3 / cvc5',
    ]
    for c in impls:
        assumptions.extend(c.assumptions)
    assumptions.extend(sorted(lib))
    extra = dict(functions_under_contract=[c.name for c in impls], paths=paths, inlined_callees=sorted(inlined),
                 lemmas=list(lemmas(w)), explanation='every obligation is generated from the ast of /repo/depccg/cat.py on this run')
    assumptions.append('bounded stand-in (labelled bounded, never counted as proved; it turns an obligation the verifier cannot decide into a violation only with a concrete value): '
                       'bounded/c13_real.py compares ==, hash, ^, text comparison and clear_features of the real classes with field-level twins on constructor-built categories of both feature systems')
    from props import c12
    return c12.finish_with(PROP, tier, seed, t0, records, errors, extra, assumptions, ['c13_real.py'], level='proof')
