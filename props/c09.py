"""C09 — reported score is the model score of the returned tree."""
import time
from props import cxx, c12
PROP = 'C09'


def main(tier='quick', seed=0):
    t0 = time.time()
    records, errors, info = cxx.records_for(PROP)
    assumptions = list(cxx.CXX_ASSUMPTIONS) + [
        'by induction over the derivation the local equations proved at the five construction sites (leaf, goal, unary, binary x2) give in_score = model score and head_id = head of the derivation for every item',
        'retrieve_tree appends item.score() = in_score + 0 for the goal item and pairs tree i with score i (covered by the bounded run on the DePyx text); floating-point addition order is not modelled',
    ]
    extra = dict(functions_under_contract=['depccg/parsing.h::parse_sentence (inside-score and head equations at every construction site, matrix index bounds)'] + cxx.HELPER_FUNCTIONS['C09'], cxx=info)
    return c12.finish_with(PROP, tier, seed, t0, records, errors, extra, assumptions, ['search_real.py', 'pyx_real.py'])
