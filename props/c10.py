"""C10 — n-best results are the k best distinct derivations, best first."""
import time
from props import cxx, c12
PROP = 'C10'


def main(tier='quick', seed=0):
    t0 = time.time()
    records, errors, info = cxx.records_for(PROP)
    assumptions = list(cxx.CXX_ASSUMPTIONS) + [
        'deductive part: only final items reach the goal cell and only the goal site creates them; ordering/size of the output (cell::sort comparator, loop guard goal.size() < nbest) and "k largest, pairwise distinct" are decided by the bounded run against the exhaustive oracle only',
    ]
    extra = dict(functions_under_contract=['depccg/parsing.h::parse_sentence (goal cell receives only final items; only the goal site creates final items)'] + cxx.HELPER_FUNCTIONS['C10'], cxx=info)
    return c12.finish_with(PROP, tier, seed, t0, records, errors, extra, assumptions, ['search_real.py', 'pyx_real.py'], level='exploration')
