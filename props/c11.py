"""C11 — batch results align with inputs and do not depend on batch history."""
import json
import os
import time

from vc.sorts import CheckerError, get_world
from vc.pyvc import Interp
from vc import engine
from vc.engine import verify_contract
from contracts import cat as catc, parsing_py as pp
from props import c12, cxx

PROP = 'C11'


def run_job(kind, key):
    w = get_world()
    catc.bind_world(w)
    table, impls, virtuals = catc.cat_contracts()
    I = Interp(w, table)
    if key == '_type_check':
        c = pp.TypeCheckFull()
        I.contracts[c.name] = c
        recs, npaths = verify_contract(I, c, PROP)
        for r in recs:
            r['witness'] = dict(function=c.name)
        return dict(job=key, records=recs + pp.run_call_order(PROP), paths=npaths, lib=sorted(I.used_lib))
    c = pp.Chunks()
    I.contracts[c.name] = c
    recs, npaths = verify_contract(I, c, PROP)
    for r in recs:
        if r['verdict'] == 'failed' and r['kind'] == 'post' and isinstance(r.get('inputs'), dict):
            r['replay'] = replay_chunks(r['inputs'])
    return dict(job=key, records=recs, paths=npaths, lib=sorted(I.used_lib))


def replay_chunks(inputs):
    """the counter-model (n, num_chunks) on the real function: the def of _chunks is cut out of the real depccg/parsing.py (the module itself needs the
    compiled extension) and called on list(range(n)); the chunks must be non-empty contiguous pieces, in order, covering the list"""
    try:
        n, k = int(inputs['n']), int(inputs['num_chunks'])
    except Exception:
        return dict(reproduced=False, note='model not ground')
    if n > 100000:
        return dict(reproduced=False, note='model too large to replay')
    body = ('import ast, math, os\n'
            'src = open(os.path.join(os.environ.get("VERIF_REPO", "/repo"), "depccg/parsing.py")).read()\n'
            'fn = [x for x in ast.parse(src).body if isinstance(x, ast.FunctionDef) and x.name == "_chunks"][0]\n'
            'ns = {"math": math}\n'
            'exec(compile(ast.Module(body=[fn], type_ignores=[]), "parsing.py", "exec"), ns)\n'
            f'n, k = {n}, {k}\n'
            'chunks = [list(c) for c in ns["_chunks"](list(range(n)), k)]\n'
            'flat = [x for c in chunks for x in c]\n'
            'bad = flat != list(range(n)) or any(not c for c in chunks)\n'
            'print("REPRODUCED" if bad else "NOT-REPRODUCED", n, k, chunks)\n')
    rc, out, err = engine.run_real(body)
    return dict(reproduced='REPRODUCED' in out and 'NOT-REPRODUCED' not in out, stdout=out[-800:], stderr=err[-800:], script=body)


def main(tier='quick', seed=0):
    t0 = time.time()
    records, errors, info = cxx.records_for(PROP)        # memo soundness of the two rule-cache lambdas of parsing.h
    from props import pyx
    precs, perrs = pyx.records_for(PROP)          # the id table of parsing.pyx: ids handed out for earlier sentences of a batch keep their meaning
    records.extend(precs)
    errors.extend(perrs)
    results = engine.run_jobs('props.c11', [('contract', '_chunks'), ('contract', '_type_check')])
    for r in results:
        records.extend(r.get('records', []))
        if r.get('error'):
            errors.append(f"{r['error']} (job {r['job']})")
    assumptions = [
        'deductive part 1: _chunks yields non-empty, contiguous, in-order slices covering the list (one arbitrary iteration of range(0, n, splits); math.ceil(a / b) = exact ceiling division for 0 < b, len < 2**53)',
        'deductive part 2: the rule-cache lambdas of parsing.h store the vector filled by scaffold unchanged under (x, y) and return the stored vector; on a hit nothing is called (memo soundness); with pure grammar callbacks (C14) cached and fresh answers coincide',
        'deductive part 3: _type_check (lists of sentences / score objects, executed over symbolic collections with the arbitrary-sentence loop rule) returns its arguments only if the counts agree and the sentence fits its matrices '
        '(tag: tokens x len(categories), dep: tokens x tokens + 1) and raises RuntimeError only for a real mismatch; run() calls it first, on the arguments as given (call-order obligation on the ast); '
        'frame of *config in parse_sentence (CxxVC)',
        'parsing.pyx (DePyx text): the id table keeps the meaning of ids handed out for earlier sentences (PyVC); every path through the sentence loop of run appends exactly one entry to the returned list (ast path enumeration)',
        'history / schedule independence, alignment under every chunking, placeholders for too long / unparseable sentences and shape rejection before parsing are decided by the BOUNDED differential run on the real code '
        '(parsing.h compiled, DePyx text of parsing.pyx, depccg/parsing.py with an in-process stand-in for multiprocessing.Pool); real OS-level process scheduling is not modelled',
    ]
    extra = dict(functions_under_contract=['depccg/parsing.py::_chunks', 'depccg/parsing.py::_type_check (list form)', 'depccg/parsing.py::run (call order of the shape check)', 'depccg/parsing.h::parse_sentence (frame of *config)', 'depccg/parsing.h::parse_sentence::apply_binary_rules (lambda)', 'depccg/parsing.h::parse_sentence::apply_unary_rules (lambda)'] + pyx.FUNCTIONS_UNDER_CONTRACT[PROP],
                 bounded_functions=['depccg/parsing.py::run (chunking, collection, single-sentence form)', 'depccg/parsing.pyx::run (DePyx)'], cxx=info)
    return c12.finish_with(PROP, tier, seed, t0, records, errors, extra, assumptions, ['pyx_real.py'], level='exploration')
