"""C11 — batch results align with inputs and do not depend on batch history."""
import json
import os
import time

from vc.sorts import CheckerError, get_world
from vc.pyvc import Interp
from vc import engine
from vc.engine import verify_contract
from contracts import cat as catc, parsing_py as pp
from props import c12, cxx

PROP = 'C11'


def run_job(kind, key):
    w = get_world()
    catc.bind_world(w)
    table, impls, virtuals = catc.cat_contracts()
    I = Interp(w, table)
    if key == '_type_check':
        c = pp.TypeCheckFull()
        I.contracts[c.name] = c
        recs, npaths = verify_contract(I, c, PROP)
        for r in recs:
            r['witness'] = dict(function=c.name)
        return dict(job=key, records=recs + pp.run_call_order(PROP), paths=npaths, lib=sorted(I.used_lib))
    c = pp.Chunks()
    I.contracts[c.name] = c
    recs, npaths = verify_contract(I, c, PROP)
    return dict(job=key, records=recs, paths=npaths, lib=sorted(I.used_lib))


def main(tier='quick', seed=0):
    t0 = time.time()
    records, errors, info = cxx.records_for(PROP)        # memo soundness of the two rule-cache lambdas of parsing.h
    results = engine.run_jobs('props.c11', [('contract', '_chunks'), ('contract', '_type_check')])
    for r in results:
        records.extend(r.get('records', []))
        if r.get('error'):
            errors.append(f"{r['error']} (job {r['job']})")
    assumptions = [
        'deductive part 1: _chunks yields non-empty, contiguous, in-order slices covering the list (one arbitrary iteration of range(0, n, splits); math.ceil(a / b) = exact ceiling division for 0 < b, len < 2**53)',
        'deductive part 2: the rule-cache lambdas of parsing.h store the vector filled by scaffold unchanged under (x, y) and return the stored vector; on a hit nothing is called (memo soundness); with pure grammar callbacks (C14) cached and fresh answers coincide',
        'deductive part 3: _type_check (lists of sentences / score objects, executed over symbolic collections with the arbitrary-sentence loop rule) returns its arguments only if the counts agree and the sentence fits its matrices '
        '(tag: tokens x len(categories), dep: tokens x tokens + 1) and raises RuntimeError only for a real mismatch; run() calls it first, on the arguments as given (call-order obligation on the ast); '
        'frame of *config in parse_sentence (CxxVC)',
        'history / schedule independence, alignment under every chunking, placeholders for too long / unparseable sentences and shape rejection before parsing are decided by the BOUNDED differential run on the real code '
        '(parsing.h compiled, DePyx text of parsing.pyx, depccg/parsing.py with an in-process stand-in for multiprocessing.Pool); real OS-level process scheduling is not modelled',
    ]
    extra = dict(functions_under_contract=['depccg/parsing.py::_chunks', 'depccg/parsing.py::_type_check (list form)', 'depccg/parsing.py::run (call order of the shape check)', 'depccg/parsing.h::parse_sentence (frame of *config)', 'depccg/parsing.h::parse_sentence::apply_binary_rules (lambda)', 'depccg/parsing.h::parse_sentence::apply_unary_rules (lambda)'],
                 bounded_functions=['depccg/parsing.py::run (chunking, collection, single-sentence form)', 'depccg/parsing.pyx::run (DePyx)'], cxx=info)
    return c12.finish_with(PROP, tier, seed, t0, records, errors, extra, assumptions, ['pyx_real.py'], level='exploration')
