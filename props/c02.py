"""C02 — every returned parse is a derivation licensed by grammar and input."""
import time
from props import cxx, c12
PROP = 'C02'


def main(tier='quick', seed=0):
    t0 = time.time()
    records, errors, info = cxx.records_for(PROP)
    from props import pyx
    precs, perrs = pyx.records_for(PROP)          # the Python half: retrieve_tree, scaffold, the callbacks and the id table of parsing.pyx (DePyx text)
    records.extend(precs)
    errors.extend(perrs)
    assumptions = list(cxx.CXX_ASSUMPTIONS) + pyx.ASSUMPTIONS + [
        'the body of run (parsing.pyx) around these functions - building the table, the per-sentence loop, pairing trees with scores - is covered by the bounded run on the DePyx text (leaf tokens in order, licensed nodes, allowed root), not deductively',
    ]
    extra = dict(functions_under_contract=['depccg/parsing.h::parse_sentence (spans, adjacency of children, licensed categories, root and unary guards, pointer shapes, index bounds, no unsigned wrap-around)'] + cxx.HELPER_FUNCTIONS['C02'] + pyx.FUNCTIONS_UNDER_CONTRACT[PROP], cxx=info)
    return c12.finish_with(PROP, tier, seed, t0, records, errors, extra, assumptions, ['search_real.py', 'pyx_real.py'])
