"""C05 — category text and category values round-trip.

Deductive part: the body of the `while` loop of Category.parse (real ast) is executed symbolically as a
step function on configurations (stack, buffer) whose bottoms are arbitrary; each LINK below is one
obligation group "from this configuration one iteration gives exactly that configuration, without an
exception" (or: "raises on every path").  The links are the steps of the segment lemma
   SEG(c): (S, toks(c) ++ R) ->* (S ++ [c], R)          (structural induction on c / on the bracketing)
from which value->text->value, invariance under redundant brackets and rejection of two unbracketed
slashes follow (DESIGN.md C05).  The tokenizer (re.sub/split/reversed) and the three-part branch of
Feature.parse are assumed library contracts, validated by the bounded run on the real code.
"""
import ast
import json
import os
import time
import z3

from vc.sorts import CheckerError, get_world
from vc.pyvc import Interp, Z, Env, PyRaise, explore, _Return, _Break, _Continue
from vc.symlist import TailList
from vc import engine
from contracts import cat as catc

PROP = 'C05'
SPECIAL = list('[]()/\\|<>')


def setup():
    w = get_world()
    catc.bind_world(w)
    table, impls, virtuals = catc.cat_contracts()
    I = Interp(w, table)
    return w, I, table


def S(x):
    return z3.StringVal(x)


def plain(b):
    """a token that is not empty and not one of the nine special characters (what the branch tests can see)"""
    multi = ['(<', ')>', '/\\', '\\|', '/\\|']      # substrings of the literals the loop tests with `in`; no token contains a special character
    return z3.And(b != S(''), *[b != S(c) for c in SPECIAL + multi])


def slash(s):
    return z3.Or(s == S('/'), s == S('\\'), s == S('|'))


def loop_parts(I):
    f = I.find_function('depccg/cat.py', 'Category.parse')
    body = f.node.body
    idx = [i for i, st in enumerate(body) if isinstance(st, ast.While)]
    if len(idx) != 1:
        raise CheckerError('Category.parse no longer has exactly one top-level while loop')
    whl = body[idx[0]]
    if whl.orelse:
        raise CheckerError('while/else in Category.parse')
    names = {n.id for n in ast.walk(whl.test) if isinstance(n, ast.Name)}
    if 'buffer' not in names:
        raise CheckerError('loop test of Category.parse does not mention `buffer`')
    return f, body[:idx[0]], whl, body[idx[0] + 1:]


def links(w):
    """name -> builder() -> dict(stack, buffer, assumes, expect, inputs)"""
    Cat, Str, Int = w.Cat, z3.StringSort(), z3.IntSort()
    out = {}

    def cfg(stack_items, buffer_items, n_stack=None, n_buf=None, buf_peek=None, buf_kinds=('String',)):
        ns = z3.Int('nS') if n_stack is None else n_stack
        nb = z3.Int('nR') if n_buf is None else n_buf
        st = TailList('S', ns, stack_items)
        bf = TailList('R', nb, buffer_items, elem_kinds=('String',), peek=buf_peek)
        assumes = []
        if z3.is_expr(ns):
            assumes.append(ns >= 0)
        if z3.is_expr(nb):
            assumes.append(nb >= 0)
        return st, bf, assumes

    def atom_nofeat(variant):
        def build():
            b = z3.Const('b', Str)
            if variant == 'end':
                st, bf, a = cfg([], [Z(b)], n_buf=0)
                exp_buf = []
            else:
                r0 = z3.Const('r0', Str)
                st, bf, a = cfg([], [Z(r0), Z(b)])
                a.append(r0 != S('['))
                exp_buf = [Z(r0)]
            a.append(plain(b))
            return dict(stack=st, buffer=bf, assumes=a, expect=('cfg', [Z(w.atom(b))], exp_buf), inputs=dict(b=b))
        return build
    out['step/atom-without-feature/at-end'] = atom_nofeat('end')
    out['step/atom-without-feature/before-non-bracket'] = atom_nofeat('mid')

    def atom_feat(variant):
        def build():
            b, ft = z3.Const('b', Str), z3.Const('ft', Str)
            f = z3.Const('f', w.Feat)
            items = [']', Z(ft), '[', Z(b)]
            if variant == 'end':
                st, bf, a = cfg([], items, n_buf=0)
            else:
                st, bf, a = cfg([], items)
            punct = punctuation_list()
            a += [plain(b), plain(ft), catc.feat_parse_spec(w, ft) == f] + [b != S(p) for p in punct]
            return dict(stack=st, buffer=bf, assumes=a, expect=('cfg', [Z(w.atom(b, f))], []), inputs=dict(b=b, ft=ft, f=f))
        return build
    out['step/atom-with-feature/at-end'] = atom_feat('end')
    out['step/atom-with-feature/inside'] = atom_feat('mid')

    def opener(o):
        def build():
            st, bf, a = cfg([], [o])
            return dict(stack=st, buffer=bf, assumes=a, expect=('cfg', [o], []), inputs={})
        return build
    out['step/open-round'] = opener('(')
    out['step/open-angle'] = opener('<')

    def slash_step():
        s = z3.Const('s', Str)
        st, bf, a = cfg([], [Z(s)])
        a.append(slash(s))
        return dict(stack=st, buffer=bf, assumes=a, expect=('cfg', [Z(s)], []), inputs=dict(s=s))
    out['step/slash'] = slash_step

    def close_functor(o, c):
        def build():
            l, r, s = z3.Const('l', Cat), z3.Const('r', Cat), z3.Const('s', Str)
            st, bf, a = cfg([o, Z(l), Z(s), Z(r)], [c])
            a.append(slash(s))
            return dict(stack=st, buffer=bf, assumes=a, expect=('cfg', [Z(w.functor(l, s, r))], []), inputs=dict(l=l, r=r, s=s))
        return build
    out['step/close-functor/round'] = close_functor('(', ')')
    out['step/close-functor/angle'] = close_functor('<', '>')

    def close_redundant(o, c):
        def build():
            x = z3.Const('x', Cat)
            st, bf, a = cfg([o, Z(x)], [c])
            return dict(stack=st, buffer=bf, assumes=a, expect=('cfg', [Z(x)], []), inputs=dict(x=x))
        return build
    out['step/close-redundant/round'] = close_redundant('(', ')')
    out['step/close-redundant/angle'] = close_redundant('<', '>')

    def reject_close(c):
        def build():
            b_, c_ = z3.Const('b_', Cat), z3.Const('c_', Cat)
            s1, s2 = z3.Const('s1', Str), z3.Const('s2', Str)
            st, bf, a = cfg([Z(s1), Z(b_), Z(s2), Z(c_)], [c])
            a += [slash(s1), slash(s2)]
            return dict(stack=st, buffer=bf, assumes=a, expect=('raise', None), inputs=dict(b_=b_, c_=c_, s1=s1, s2=s2))
        return build
    out['step/reject-two-slashes-inside-brackets/round'] = reject_close(')')
    out['step/reject-two-slashes-inside-brackets/angle'] = reject_close('>')

    # exits (code after the loop)
    def exit_single():
        x = z3.Const('x', Cat)
        st, bf, a = cfg([Z(x)], [], n_stack=0, n_buf=0)
        return dict(stack=st, buffer=bf, assumes=a, expect=('return', Z(x)), inputs=dict(x=x), exit=True)
    out['exit/single-value'] = exit_single

    def exit_functor():
        l, r, s = z3.Const('l', Cat), z3.Const('r', Cat), z3.Const('s', Str)
        st, bf, a = cfg([Z(l), Z(s), Z(r)], [], n_stack=0, n_buf=0)
        a.append(slash(s))
        return dict(stack=st, buffer=bf, assumes=a, expect=('return', Z(w.functor(l, s, r))), inputs=dict(l=l, r=r, s=s), exit=True)
    out['exit/top-level-functor'] = exit_functor

    def exit_reject():
        n = z3.Int('nS')
        st, bf, a = cfg([], [], n_buf=0)
        a += [n != 1, n != 3]
        return dict(stack=st, buffer=bf, assumes=a, expect=('raise', 'RuntimeError'), inputs=dict(nS=n), exit=True)
    out['exit/reject-other-stack-sizes'] = exit_reject

    def exit_reject5():
        a_, b_, c_ = z3.Const('a_', Cat), z3.Const('b_', Cat), z3.Const('c_', Cat)
        s1, s2 = z3.Const('s1', Str), z3.Const('s2', Str)
        st, bf, a = cfg([Z(a_), Z(s1), Z(b_), Z(s2), Z(c_)], [], n_buf=0)
        return dict(stack=st, buffer=bf, assumes=a, expect=('raise', 'RuntimeError'), inputs=dict(nS=z3.Int('nS')), exit=True)
    out['exit/reject-two-slashes-at-top-level'] = exit_reject5
    return out


_PUNCT = None


def punctuation_list():
    global _PUNCT
    if _PUNCT is None:
        w, I, _ = setup()
        m = I.load_module('depccg.cat')
        p = m.env.lookup('punctuations')
        if not (isinstance(p, list) and all(isinstance(x, str) for x in p)):
            raise CheckerError('punctuations is not a list of string literals')
        _PUNCT = list(p)
    return _PUNCT


def feature_lemmas(w):
    """Feature.parse(str(f)) == f for well-formed unary features (three-part: assumed, bounded)"""
    v = z3.Const('v', z3.StringSort())
    f = w.unary(v)
    hyp = [v != S(''), z3.Not(z3.And(z3.Contains(v, S('=')), z3.Contains(v, S(','))))]
    return {'feature/unary-text-parses-back': (catc.feat_parse_spec(w, w.feat_text(f)) == f, hyp, dict(v=v)),
            'feature/absent-feature-prints-empty': (w.feat_text(w.none_feat()) == S(''), [], {})}


def same_items(I, got, want):
    if len(got) != len(want):
        return z3.BoolVal(False)
    cs = []
    for g, x in zip(got, want):
        if isinstance(g, str) and isinstance(x, str):
            cs.append(z3.BoolVal(g == x))
        elif I._strish(g) and I._strish(x):
            cs.append(I.ex(g) == I.ex(x))
        elif isinstance(g, Z) and isinstance(x, Z) and g.e.sort() == x.e.sort():
            cs.append(g.e == x.e)
        else:
            cs.append(z3.BoolVal(False))
    return z3.And(*cs) if cs else z3.BoolVal(True)


def run_link(name):
    w, I, table = setup()
    f, pre, whl, post = loop_parts(I)
    build = links(w)[name]
    holder = {}

    def run(ctx):
        spec = build()
        holder['spec'] = spec
        for a in spec['assumes']:
            ctx.assume(a)
        env = Env(f.env)
        env.vars.update(cls=f.owner, text=Z(z3.Const('text', z3.StringSort())), stack=spec['stack'], buffer=spec['buffer'])
        n0 = (spec['stack'].n, spec['buffer'].n)
        holder['n0'] = n0
        try:
            if spec.get('exit'):
                t = I.truth(I.eval(whl.test, env, f.module), whl.test)
                if t:
                    return 'stuck', 'loop test true at an exit configuration'
                try:
                    I.exec_block(post, env, f.module, f.qualname)
                except _Return as r:
                    return 'return', r.v
                return 'return', None
            t = I.truth(I.eval(whl.test, env, f.module), whl.test)
            if not t:
                return 'stuck', 'loop test false although the buffer is not empty'
            try:
                I.exec_block(whl.body, env, f.module, f.qualname)
            except _Continue:
                pass
            except _Break:
                return 'stuck', 'break'
            except _Return as r:
                return 'return', r.v
            return 'cfg', (env.vars['stack'], env.vars['buffer'])
        except PyRaise as e:
            return 'raise', e
        except CheckerError as e:
            return 'unsupported', str(e)

    outcomes = explore(I, run)
    recs = []
    spec = holder.get('spec')
    if not outcomes:
        return [dict(name=f'{PROP}/depccg/cat.py::Category.parse/{name}/vacuity', kind='vacuity', verdict='failed', backend='pyvc', ms=0, inputs=None,
                     detail='configuration template is unsatisfiable')]
    for pi, o in enumerate(outcomes):
        I.ctx = None
        kind, val = o['kind'], o['value']
        expect = spec['expect']
        detail = None
        if kind == 'unsupported':
            dead, _, _, _ = engine.solve(z3.BoolVal(False), o['pc'], timeout_ms=5000, fallback=False)
            if dead == 'discharged':
                continue
            recs.append(dict(name=f'{PROP}/depccg/cat.py::Category.parse/{name}#{pi}', kind='chain-link', verdict='unknown', backend='pyvc', ms=0,
                             inputs=None, detail='path not analysable: ' + val))
            continue
        if expect[0] == 'raise':
            if kind == 'raise' and (expect[1] is None or val.exc == expect[1]):
                goal = z3.BoolVal(True)
            else:
                goal = z3.BoolVal(False)
                detail = f'expected an exception ({expect[1] or "any"}), path ended with {kind} {val if kind == "raise" else ""}'
        elif kind != expect[0]:
            goal = z3.BoolVal(False)
            detail = f'expected {expect[0]}, path ended with {kind}: {val}'
        elif kind == 'cfg':
            st, bf = val
            if not isinstance(st, TailList) or not isinstance(bf, TailList):
                goal = z3.BoolVal(False)
                detail = 'stack/buffer rebound to another kind of value'
            else:
                n0 = holder['n0']
                ok_tail = z3.And((st._n() == (n0[0] if z3.is_expr(n0[0]) else z3.IntVal(n0[0]))),
                                 z3.BoolVal(st.pulled == 0 and (bf.pulled == 0 or spec['buffer'].peek is not None)))
                want_buf = expect[2]
                # buffer: the tail length must be the initial one (nothing pulled from the unknown part)
                ok_buf = z3.And(bf._n() == (n0[1] if z3.is_expr(n0[1]) else z3.IntVal(n0[1])), same_items(I, bf.items, want_buf))
                goal = z3.And(ok_tail, same_items(I, st.items, expect[1]), ok_buf)
                detail = f'stack top {st.items} buffer top {bf.items}'
        else:  # return
            want = expect[1]
            goal = same_items(I, [val], [want])
            detail = f'returned {val}'
        verdict, backend, ms, model = engine.solve(goal, o['pc'], inputs=spec['inputs'])
        recs.append(dict(name=f'{PROP}/depccg/cat.py::Category.parse/{name}#{pi}', kind='chain-link', verdict=verdict, backend=backend, ms=ms,
                         inputs=engine.model_inputs(w, model, spec['inputs']), detail=detail))
        for ob in o['obligations']:
            v2, b2, m2, mod2 = engine.solve(ob['goal'], ob['pc'])
            recs.append(dict(name=f'{PROP}/depccg/cat.py::Category.parse/{name}/{ob["kind"]}@{ob["line"]}#{pi}', kind=ob['kind'], verdict=v2, backend=b2, ms=m2,
                             inputs=None))
    return recs


def run_job(kind, key):
    w, I, table = setup()
    if kind == 'link':
        return dict(job=key, records=run_link(key))
    if kind == 'lemma':
        goal, hyps, inputs = feature_lemmas(w)[key]
        v, b, ms, model = engine.solve(goal, hyps, inputs=inputs)
        return dict(job=key, records=[dict(name=f'{PROP}/lemma::{key}', kind='lemma', verdict=v, backend=b, ms=ms, inputs=engine.model_inputs(w, model, inputs))])
    if kind == 'contract':
        recs, npaths = engine.verify_contract(I, table[key], PROP)
        return dict(job=key, records=recs, paths=npaths)
    raise CheckerError(kind)


def bounded(tier, seed):
    script = open(os.path.join(engine.VERIF, 'bounded', 'c05_real.py')).read()
    rc, out, err = engine.run_real(script, timeout=1500, env_extra=dict(VERIF_TIER=tier, VERIF_SEED=str(seed), VERIF_REPO=engine.REPO))
    try:
        d = json.loads(out.strip().splitlines()[-1])
    except Exception:
        return None, f'CHECKER-ERROR bounded C05 run did not produce a result (rc={rc}): {err[-600:]}'
    return d, None


def main(tier='quick', seed=0):
    t0 = time.time()
    w, I, table = setup()
    jobs = [('link', n) for n in links(w)] + [('lemma', n) for n in feature_lemmas(w)] + \
           [('contract', 'depccg/cat.py::Atom.__str__'), ('contract', 'depccg/cat.py::Functor.__str__'),
            ('contract', 'depccg/cat.py::UnaryFeature.__str__'), ('contract', 'depccg/cat.py::TernaryFeature.__str__'),
            ('contract', 'depccg/cat.py::Feature.parse')]
    results = engine.run_jobs('props.c05', jobs)
    records, errors = [], []
    for r in results:
        records.extend(r.get('records', []))
        if r.get('error'):
            errors.append(f"{r['error']} (job {r['job']})")
    b, err = bounded(tier, seed)
    binfo = None
    if err:
        errors.append(err)
    else:
        for i, fl in enumerate(b['failures']):
            records.append(dict(name=f'{PROP}/bounded::{fl["kind"]}#{i}', kind='bounded', verdict='unknown' if fl.get('undecided') else 'failed', backend='bounded', ms=0, inputs=None,
                                witness=fl, replay=dict(reproduced=True, stdout=json.dumps(fl), script=None), detail=fl))
        binfo = dict(evaluations=b['evaluations'], distinct_nontrivial=b['distinct_nontrivial'], rule=b['rule'], model_strings=b['model_strings'],
                     label='bounded (never counted as proved)', samples=[dict(bounded_case='Category.parse(str(c)) for c in all values up to the stated size')])
    # a failed chain link gets its concrete input from the bounded run on the same tree, if it found one
    has_concrete = any(r['backend'] == 'bounded' for r in records)
    assumptions = [
        'tokenizer contract: the first two statements of Category.parse produce the reversed list of maximal non-blank, non-special runs and single special characters (re.sub/str.split/reversed are not modelled; validated bounded on every run)',
        'Feature.parse on the printed text of a well-formed three-part feature returns that feature (str.split not modelled; validated bounded)',
        'meta-level: SEG(c) and its corollaries are obtained from the proved step links by structural induction on the bracketing (DESIGN.md C05); the induction itself is on paper',
        'well-formedness precondition: atom bases / feature texts are non-empty, contain no blank and none of []()/\\|<>, a punctuation base carries no feature, unary values do not contain both = and ,',
        'CPython semantics of the encoded subset; z3 / cvc5',
    ]
    extra = dict(functions_under_contract=['depccg/cat.py::Category.parse (loop body as step function, exit code)', 'depccg/cat.py::Atom.__str__',
                                           'depccg/cat.py::Functor.__str__', 'depccg/cat.py::UnaryFeature.__str__', 'depccg/cat.py::TernaryFeature.__str__',
                                           'depccg/cat.py::Feature.parse (unary branch)'],
                 chain_links=list(links(w)))
    return engine.finish(PROP, tier, seed, t0, records, errors, extra, assumptions, bounded=binfo)
