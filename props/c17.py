"""C17 — the category dictionary restricts exactly the listed words."""
import json
import os
import time

from vc.sorts import CheckerError, get_world
from vc.pyvc import Interp
from vc import engine
from vc.engine import verify_contract
from contracts import cat as catc, parsing_py as pp
from props import c12

PROP = 'C17'


def setup():
    w = get_world()
    catc.bind_world(w)
    table, impls, virtuals = catc.cat_contracts()
    I = Interp(w, table)
    return w, I, table


def run_job(kind, key):
    w, I, table = setup()
    if key == '_binarize':
        c = pp.Binarize()
        I.contracts[c.name] = c
    else:
        for x in (pp.TypeCheck(), pp.BinarizeAt()):
            I.contracts[x.name] = x
        c = pp.ApplyCategoryFilters()
        I.contracts[c.name] = c
    recs, npaths = verify_contract(I, c, PROP)
    for r in recs:
        r['witness'] = dict(function=c.name)
    return dict(job=key, records=recs, paths=npaths, lib=sorted(I.used_lib))


def main(tier='quick', seed=0):
    t0 = time.time()
    results = engine.run_jobs('props.c17', [('contract', '_binarize'), ('contract', 'apply_category_filters')])
    records, errors = [], []
    from props import c14
    # the result is a function of the arguments of THIS call: no module-level state, no identity / hash dependence in parsing.py outside run()
    records.extend(c14.purity_scan(PROP, rels=('depccg/parsing.py',), exclude=('run',), imports=False, state_only=True))       # state only: waiting for worker processes (time.sleep) is not a dependence of the filter on history
    for r in results:
        records.extend(r.get('records', []))
        if r.get('error'):
            errors.append(f"{r['error']} (job {r['job']})")
    assumptions = [
        'numpy contracts: ones/zeros(n, dtype=bool) are constant vectors of length n; a[index_list] = c writes c at exactly the listed indices; a[i, mask] = v writes v at the masked columns of row i',
        'deductive part: _binarize (mask = complement of the listed indices) and apply_category_filters for a list of sentences: the real body is executed over symbolic collections - the two dict comprehensions and the '
        'list comprehension are evaluated once for an ARBITRARY element (assumptions local to that evaluation), the two loops once for an ARBITRARY sentence and token (iteration (s, i) writes row i of sentence s only: '
        'frame obligation) - and every cell (s, i, j) is proved to be the large negative value iff the word is a key and the category of column j is not listed, the old score otherwise; the arguments are returned as given '
        '(token order, dependency scores untouched: never stored to)',
        'frame / purity (ast scan of every function of parsing.py except run): no store to module-level state, no id() / hash() dependence - the cells are a function of the arguments of this call alone',
        'preconditions: `categories` lists pairwise different categories (with duplicates the earlier column of a listed category would be overwritten); every dictionary category belongs to the inventory (data clause: exhaustive over '
        'the shipped files in the bounded part); categories behave as values (C13): identities stand for them',
        'assumed contracts: {cat: index for index, cat in enumerate(categories)} maps the category at position j to a position >= j holding the same category; zip / enumerate iterate in order; _type_check returns its list arguments '
        '(its shape clauses are bounded, C11); the single-sentence calling convention (doc a list of tokens) is covered by the bounded run only',
    ]
    extra = dict(functions_under_contract=['depccg/parsing.py::_binarize', 'depccg/parsing.py::apply_category_filters (list-of-sentences form)'], bounded_functions=['depccg/parsing.py::apply_category_filters (single-sentence form, real numpy)', 'depccg/parsing.py::_type_check', 'shipped cat_dict / targets / seen_rules / unary_rules files'])
    return c12.finish_with(PROP, tier, seed, t0, records, errors, extra, assumptions, ['c17_real.py'], level='exploration')
