"""C17 — the category dictionary restricts exactly the listed words."""
import json
import os
import time

from vc.sorts import CheckerError, get_world
from vc.pyvc import Interp
from vc import engine
from vc.engine import verify_contract
from contracts import cat as catc, parsing_py as pp
from props import c12

PROP = 'C17'


def setup():
    w = get_world()
    catc.bind_world(w)
    table, impls, virtuals = catc.cat_contracts()
    I = Interp(w, table)
    return w, I, table


def run_job(kind, key):
    w, I, table = setup()
    c = pp.Binarize()
    I.contracts[c.name] = c
    recs, npaths = verify_contract(I, c, PROP)
    return dict(job=key, records=recs, paths=npaths, lib=sorted(I.used_lib))


def main(tier='quick', seed=0):
    t0 = time.time()
    results = engine.run_jobs('props.c17', [('contract', '_binarize')])
    records, errors = [], []
    for r in results:
        records.extend(r.get('records', []))
        if r.get('error'):
            errors.append(f"{r['error']} (job {r['job']})")
    assumptions = [
        'numpy contracts: ones/zeros(n, dtype=bool) are constant vectors of length n; a[index_list] = c writes c at exactly the listed indices; a[i, mask] = v writes v at the masked columns of row i',
        'deductive part: _binarize only (mask = complement of the listed indices). The postcondition of apply_category_filters over whole documents (dict/loop/fancy-indexing composition) is decided by the '
        'BOUNDED run-time contract on the real function, every cell compared; the data clause is exhaustive over the shipped files',
    ]
    extra = dict(functions_under_contract=['depccg/parsing.py::_binarize'], bounded_functions=['depccg/parsing.py::apply_category_filters', 'depccg/parsing.py::_type_check'])
    return c12.finish_with(PROP, tier, seed, t0, records, errors, extra, assumptions, ['c17_real.py'], level='exploration')
