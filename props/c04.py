"""C04 — Japanese combinatory rules are sound; unary steps are labelled by the shape of their input."""
import time
from props import c03
from vc import engine
from vc.engine import verify_contract
from contracts import grammar as gc

PROP = 'C04'
REL = 'depccg/grammar/ja.py'


def run_job(kind, key):
    if kind == 'unary':
        w, I, table = c03.setup()
        engine.PREFER[:] = [c03.nice_models('ja')]
        c = gc.ApplyUnary(REL, 'ja')
        recs, npaths = verify_contract(I, c, PROP)
        for r in recs:
            if r['verdict'] == 'failed' and r.get('inputs'):
                r['replay'] = replay_unary(r['inputs'])
                if r['replay'].get('witness'):
                    r['witness'] = r['replay']['witness']
        return dict(job=key, records=recs, paths=npaths, lib=sorted(I.used_lib), inlined=sorted(I.inlined))
    return c03.run_job(kind, key, prop=PROP, rel=REL, lang='ja')


def replay_unary(inputs):
    import json
    if any(isinstance(v, str) and v.startswith('<') for v in inputs.values()):
        return dict(reproduced=False, note='model not ground')
    body = ('import json\nfrom vc import twin\nfrom vc.twin import build, outcome\nfrom depccg.grammar import ja\nfrom depccg.cat import Category\n'
            f'inputs = json.loads({json.dumps(json.dumps(inputs))})\n'
            'x = build(inputs["x"])\n'
            'tgt = Category.parse("NP[case=nc,mod=X1,fin=X2]/NP[case=nc,mod=X1,fin=X2]")\n'
            'got = outcome(ja.apply_unary_rules, x, {x: [tgt]})\n'
            'def nargs(c):\n    return 0 if twin.is_atom(c) else 1 + nargs(c.left)\n'
            'def head(c):\n    return c if twin.is_atom(c) else head(c.left)\n'
            'f = head(x).feature\n'
            'kv = [f.kv1, f.kv2, f.kv3] if hasattr(f, "kv1") else []\n'
            'n = nargs(x)\n'
            'want = None\n'
            'if ("mod", "adn") in kv:\n    want = {0: "ADNext", 1: "ADNint"}.get(n)\n'
            'elif ("mod", "adv") in kv:\n    want = {0: "ADV0", 1: "ADV1", 2: "ADV2"}.get(n)\n'
            'bad = got[0] != "return" or len(got[1]) != 1 or not twin.same(got[1][0].cat, tgt) or (want is not None and (got[1][0].op_string != want or got[1][0].op_symbol != want))\n'
            'print("REPRODUCED" if bad else "NOT-REPRODUCED", repr(x), got, want)\n'
            'print("WITNESS", json.dumps(dict(function="apply_unary_rules", x=twin.str_spec(x), expected_label=want)))\n')
    rc, out, err = engine.run_real(body)
    wit = None
    for ln in out.splitlines():
        if ln.startswith('WITNESS '):
            wit = json.loads(ln[8:])
    return dict(reproduced='REPRODUCED' in out and 'NOT-REPRODUCED' not in out, stdout=out[-1500:], stderr=err[-1500:], script=body, witness=wit)


def main(tier='quick', seed=0):
    # the generic driver of C03 with the Japanese tables, plus the unary-label contract
    orig_jobs = engine.run_jobs

    def run_jobs(modname, jobs, procs=None):
        if modname != 'props.c04':
            return orig_jobs(modname, jobs, procs)          # jobs of other modules (the unification contract obligations) run as they are
        return orig_jobs('props.c04', list(jobs) + [('unary', 'apply_unary_rules')], procs)
    engine.run_jobs = run_jobs
    try:
        return c03.main(tier=tier, seed=seed, prop=PROP, rel=REL, lang='ja', modname='props.c04')
    finally:
        engine.run_jobs = orig_jobs
