"""C12 — rule labels and head directions on trees are those the grammar assigned."""
import json
import os
import time
import z3

from vc.sorts import CheckerError, get_world
from vc import engine
from vc.engine import verify_contract
from contracts import grammar as gc
from props import c03, cxx

PROP = 'C12'


def run_job(kind, key):
    if kind == 'guess':
        w, I, table = c03.setup()
        c = gc.GuessCombinator()
        recs, npaths = verify_contract(I, c, PROP)
        for r in recs:
            if r['verdict'] == 'failed':
                r['replay'] = replay_guess()
                r['witness'] = dict(function='guess_combinator_by_triplet')
        return dict(job=key, records=recs, paths=npaths)
    if kind == 'sites':
        recs = []
        for rel, qual, line, verdict, why in gc.call_site_obligations():
            recs.append(dict(name=f'{PROP}/{rel}::{qual}/label-data-flow@{line}', kind='call-site', verdict=verdict, backend='pyvc-structural',
                             ms=0, inputs=None, detail=why or None, witness=dict(site=f'{rel}:{line}', function=qual)))
        return dict(job=key, records=recs)
    raise CheckerError(kind)


def replay_guess():
    body = '''
from depccg.cat import Category
from depccg.grammar import guess_combinator_by_triplet, en
x, y = Category.parse('S[dcl]\\\\NP'), Category.parse('(S\\\\NP)\\\\(S\\\\NP)')
t = Category.parse('S[dcl]\\\\NP')
want = [r for r in en.apply_binary_rules(x, y) if r.cat == t]
got = guess_combinator_by_triplet(en.apply_binary_rules, t, x, y)
bad = bool(want) and (got.op_string, got.op_symbol, got.head_is_left) != (want[0].op_string, want[0].op_symbol, want[0].head_is_left)
print('REPRODUCED' if bad else 'NOT-REPRODUCED', got, want[:1])
'''
    rc, out, err = engine.run_real(body)
    return dict(reproduced='REPRODUCED' in out and 'NOT-REPRODUCED' not in out, stdout=out[-800:], stderr=err[-800:], script=body)


def bounded_many(tier, seed, scripts, props):
    """runs the bounded real-code scripts and merges their reports"""
    total = dict(evaluations=0, distinct_nontrivial=0, failures=[], rules=[], extra={})
    for name in scripts:
        script = open(os.path.join(engine.VERIF, 'bounded', name)).read()
        rc, out, err = engine.run_real(script, timeout=2400, env_extra=dict(VERIF_TIER=tier, VERIF_SEED=str(seed), VERIF_REPO=engine.REPO, VERIF_PROPS=','.join(props)))
        try:
            d = json.loads(out.strip().splitlines()[-1])
        except Exception:
            return None, f'CHECKER-ERROR bounded run {name} did not produce a result (rc={rc}): {err[-800:]}'
        total['evaluations'] += d['evaluations']
        total['distinct_nontrivial'] += d['distinct_nontrivial']
        total['failures'] += [f for f in d['failures'] if ('prop' not in f) or f.get('prop') in props]
        total['rules'].append(f'[{name}] ' + d['rule'])
        total['extra'][name] = {k: v for k, v in d.items() if k not in ('failures', 'rule', 'evaluations', 'distinct_nontrivial')}
    return total, None


def finish_with(prop, tier, seed, t0, records, errors, extra, assumptions, scripts, level='proof'):
    b, err = bounded_many(tier, seed, scripts, [prop])
    binfo = None
    if err:
        errors.append(err)
    else:
        for i, fl in enumerate(b['failures']):
            records.append(dict(name=f'{prop}/bounded::{fl["kind"]}#{i}', kind='bounded', verdict='unknown' if fl.get('undecided') else 'failed', backend='bounded', ms=0, inputs=None,
                                witness=fl.get('witness'), replay=dict(reproduced=True, stdout=json.dumps(fl)[:3000]), detail=fl['kind']))
        binfo = dict(evaluations=b['evaluations'], distinct_nontrivial=b['distinct_nontrivial'], rule=' || '.join(b['rules']), label='bounded (never counted as proved)',
                     details=b['extra'], samples=[dict(bounded_script=s) for s in scripts])
    return engine.finish(prop, tier, seed, t0, records, errors, extra, assumptions, bounded=binfo, level=level)


def main(tier='quick', seed=0):
    t0 = time.time()
    records, errors, info = cxx.records_for(PROP)
    results = engine.run_jobs('props.c12', [('guess', 'x'), ('sites', 'x')])
    for r in results:
        records.extend(r.get('records', []))
        if r.get('error'):
            errors.append(f"{r['error']} (job {r['job']})")
    from props import pyx
    precs, perrs = pyx.records_for(PROP)          # parsing.pyx: scaffold copies the k-th result, the callbacks number the results by position, retrieve_tree reads cache[(children)][rule_id]
    records.extend(precs)
    errors.extend(perrs)
    assumptions = list(cxx.CXX_ASSUMPTIONS) + pyx.ASSUMPTIONS + [
        'reader half: guess_combinator_by_triplet proved by the find-first loop rule for an arbitrary rule function; the call sites are decided on the ast (argument data flow and arity against Tree.make_binary)',
    ]
    extra = dict(functions_under_contract=['depccg/parsing.h::parse_sentence (push sites: rule index and head propagation)', 'depccg/grammar/__init__.py::guess_combinator_by_triplet',
                                           'call sites: tools/reader.py (_AutoLineReader.parse_tree, read_xml, read_jigg_xml, _parse_ptb), tree.py (Tree.of_nltk_tree)'] + pyx.FUNCTIONS_UNDER_CONTRACT[PROP],
                 cxx=info)
    from props import c14
    # the guess depends on its arguments alone: no module-level state in depccg/grammar/__init__.py (ast frame scan)
    records.extend(c14.purity_scan(PROP, rels=('depccg/grammar/__init__.py',), imports=False))
    return finish_with(PROP, tier, seed, t0, records, errors, extra, assumptions, ['search_real.py', 'pyx_real.py', 'guess_real.py', 'printers_real.py'])
