"""C15 — XML formats round-trip; a Jigg XML sentence is self-contained.

Deductive part (PyVC, contracts/printers.py): the span elements `_ConvertToJiggXML.process` writes.  `traverse` is verified against its contract with the
recursive calls replaced by the contract (structural induction over the tree view): the spans of a subtree are appended in pre-order, span j carrying
id p + j, its children's ids, its terminal, and the offsets [c, c + nleaves).  `process` is verified against "all spans of the tree, ids continuing after
those used before, first span = root".  The sentence-level clauses (unique ids also across an n-best list, references resolve, offsets tile, one root)
are lemmas over the spec function by structural induction.  Reading the XML back (C&C and Jigg readers, ccg2lambda's builder) is decided by the bounded run."""
import time

from vc.sorts import CheckerError, get_world
from vc.pyvc import Interp
from vc import engine
from vc.engine import verify_contract
from contracts import cat as catc, printers as pr
from props import c12

PROP = 'C15'


def setup():
    w = get_world()
    catc.bind_world(w)
    table, impls, virtuals = catc.cat_contracts()
    I = Interp(w, table)
    pr.install_etree(I)
    pr.install_etree_jigg(I)
    cs = [pr.CatMultiValued(), pr.JiggTraverse(), pr.JiggProcess()]
    for c in cs:
        I.contracts[c.name] = c
    return w, I, cs


def run_job(kind, key):
    w, I, cs = setup()
    if kind == 'contract':
        c = [x for x in cs if x.name == key][0]
        recs, npaths = verify_contract(I, c, PROP)
        for r in recs:
            r['witness'] = dict(function=c.name)
        return dict(job=key, records=recs, paths=npaths, lib=sorted(I.used_lib))
    if kind == 'lemmas':
        return dict(job=key, records=pr.jigg_lemmas(I, PROP) + pr.jigg_call_site(I, PROP) + pr.view_lemmas(PROP) + pr.tree_view_obligations(I, PROP) + pr.tree_py_records(I, PROP))
    raise CheckerError(kind)


def main(tier='quick', seed=0):
    t0 = time.time()
    jobs = [('contract', 'depccg/printer/jigg_xml.py::_ConvertToJiggXML.process.traverse'), ('contract', 'depccg/printer/jigg_xml.py::_ConvertToJiggXML.process'), ('lemmas', 'span_rec')]
    results = engine.run_jobs('props.c15', jobs)
    records, errors = [], []
    for r in results:
        records.extend(r.get('records', []))
        if r.get('error'):
            errors.append(f"{r['error']} (job {r['job']})")
    pr.replay_views(records)
    assumptions = [
        'deductive part: the span elements of Jigg XML (ids, child / terminal references, rule labels, begin / end offsets, root, ids continuing across the trees of an n-best list). '
        'Tree view Leaf | Un | Bin with opaque node tags (category, labels and token hang off the tag), attribute meanings checked against the real tree.py properties in this check as well; '
        'the recursive calls of traverse are replaced by its contract (structural induction; the induction principle is the meta-rule, also for the lemmas ids / refs over the spec function span_rec)',
        'assumed contracts: lxml etree.Element / SubElement / set / append / indexing build the elements they are told to; '
        '_cat_multi_valued(cat) is an opaque function of the category (its text is compared by the bounded run); f-strings of integers are kept as structured text (str(int) injective); '
        'to_jigg_xml creates one converter per sentence and sends every tree of the n-best list through converter.process (checked on the ast: call-site obligation)',
        'the token elements of a sentence, the C&C XML reader, the Jigg reader and ccg2lambda\'s tree builder are decided by the BOUNDED stand-in: run-time contract decode(encode(t)) = view(t) with independent spec decoders '
        'and the repository readers applied to files the encoders wrote, on enumerated derivations (never counted as proved)',
        'lxml serialise/parse round trip preserves tags, attributes and order for XML-representable strings',
    ]
    extra = dict(functions_under_contract=['depccg/printer/jigg_xml.py::_ConvertToJiggXML.process', 'depccg/printer/jigg_xml.py::_ConvertToJiggXML.process.traverse',
                                           'depccg/printer/jigg_xml.py::_ConvertToJiggXML.spid (property, inlined)', 'depccg/printer/jigg_xml.py::to_jigg_xml (call-site shape of the converter)', 'depccg/tree.py::Tree.leaves / leaves.rec / __len__ / tokens (len(tree) = number of words)'],
                 bounded_functions=['depccg/printer/jigg_xml.py::to_jigg_xml (token elements)', 'depccg/printer/xml.py::xml_of', 'depccg/tools/reader.py::read_xml / read_jigg_xml', 'ccg2lambda tree builder'])
    return c12.finish_with(PROP, tier, seed, t0, records, errors, extra, assumptions, ['printers_real.py', 'guess_real.py'], level='exploration')      # guess_real: the labels the readers re-derive come from guess_combinator_by_triplet (incl. its history cases)
