"""shared driver for the parsing.h properties (C01, C02, C09, C10, C12, C16): CxxVC obligations of the search loop and the leaf loop"""
import json
import os
import time
import z3

from vc.sorts import CheckerError
from vc import engine, cxxvc
from contracts import parsing_h as ph

_AST = None


def get_ast():
    global _AST
    if _AST is None:
        _AST = cxxvc.Ast()
    return _AST


def all_obligations():
    ast = get_ast()
    g, m, outs = ph.run_main_loop(ast)
    recs, lines = ph.spec_obligations_main(g, m, outs)
    g2, m2, outs2 = ph.run_leaf_loop(ast)
    recs2 = ph.spec_obligations_leaf(g2, m2, outs2)
    recs2 = recs2 + ph.run_lambdas(ast)
    return recs + recs2, dict(main_paths=len(outs), leaf_paths=len(outs2), push_lines=sorted(lines))


def run_job(kind, key):
    prop, lo, hi = key
    recs, info = all_obligations()
    mine = [r for r in recs if prop in r['props']][lo:hi]
    out = []
    for r in mine:
        v, b, ms, model = engine.solve(r['goal'], list(r['pc']) + list(r['facts']))
        name = f"{prop}/depccg/parsing.h::parse_sentence/{r['kind']}@{r['line']}[{r.get('site', '-')}]#{r['path']}"
        out.append(dict(name=name, kind=r['kind'], verdict=v, backend=b, ms=ms, inputs=None, detail=r['what'], witness=dict(site=f"parsing.h:{r['line']}", kind=r['kind'], node=r.get('site'))))
    return dict(job=key, records=out, info=info)


def records_for(prop, modname='props.cxx'):
    recs, info = all_obligations()
    n = len([r for r in recs if prop in r['props']])
    if n == 0:
        raise CheckerError(f'no obligations generated for {prop}')
    step = max(1, (n + 15) // 16)
    jobs = [('slice', (prop, i, i + step)) for i in range(0, n, step)]
    results = engine.run_jobs('props.cxx', jobs)
    records, errors = [], []
    for r in results:
        records.extend(r.get('records', []))
        if r.get('error'):
            errors.append(f"{r['error']} (job {r['job']})")
    return records, errors, info


CXX_ASSUMPTIONS = [
    'C++14 semantics of the subset (vc/cxxvc.py): unsigned as mathematical integers with no-wrap obligations, float as mathematical reals (no rounding, NaN, Inf)',
    'aggregate initialisation binds initialisers to cell_item fields in declaration order (field order read from clang\'s AST on every run)',
    'STL contracts: priority_queue::top is a maximum w.r.t. operator< and pop removes it; vector/list/unordered_map element access; chart::update returns nullptr or a pointer to a copy',
    'loop rule: the body of the search loop / leaf loop is executed once from an arbitrary state in which every agenda and chart item satisfies Inv; Inv is re-established at every push site',
    'setup contracts (lines 308-332): best_tag(t) >= tag(t,c), best_dep(t) >= dep(t,h) for all columns (argmax), tag_out/dep_out(i,j) = P(i) + P(length) - P(j) with P the prefix sums, dep_leaf_out_score = Pdep(length)',
    'grammar callbacks through scaffold: the k-th element of the result vector has rule_id = k (parsing.pyx enumerate) and the fields of the k-th grammar result; cached vectors equal fresh ones (C11/C14)',
    'length >= 1 (an empty sentence is outside the precondition, see C11)',
    'std::exp is positive and monotone',
    'z3 / cvc5',
]
