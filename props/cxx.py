"""shared driver for the parsing.h properties (C01, C02, C09, C10, C12, C16): CxxVC obligations of the search loop and the leaf loop"""
import json
import os
import time
import z3

from vc.sorts import CheckerError
from vc import engine, cxxvc
from contracts import parsing_h as ph
from contracts import parsing_h_helpers as phh

_AST = None


def get_ast():
    global _AST
    if _AST is None:
        _AST = cxxvc.Ast()
    return _AST


_ALL = None


def all_obligations():
    """generated once per process; the forked solver jobs inherit the parent's copy"""
    global _ALL
    if _ALL is None:
        _ALL = _all_obligations()
    return _ALL


def _all_obligations():
    ast = get_ast()
    g, m, outs = ph.run_main_loop(ast)
    recs, lines = ph.spec_obligations_main(g, m, outs)
    g2, m2, outs2 = ph.run_leaf_loop(ast)
    recs2 = ph.spec_obligations_leaf(g2, m2, outs2)
    recs2 = recs2 + ph.run_lambdas(ast) + ph.config_frame_scan(ast) + ph.run_final_region(ast)
    t0 = time.time()
    recs2 = recs2 + phh.helper_records(ast)
    helper_s = round(time.time() - t0, 2)
    return recs + recs2, dict(main_paths=len(outs), leaf_paths=len(outs2), push_lines=sorted(lines), helper_generation_s=helper_s)


def run_job(kind, key):
    prop, lo, hi = key
    recs, info = all_obligations()
    mine = [r for r in recs if prop in r['props']][lo:hi]
    out = []
    for r in mine:
        v, b, ms, model = engine.solve(r['goal'], list(r['pc']) + list(r['facts']))
        name = f"{prop}/depccg/parsing.h::parse_sentence/{r['kind']}@{r['line']}[{r.get('site', '-')}]#{r['path']}"
        out.append(dict(name=name, kind=r['kind'], verdict=v, backend=b, ms=ms, inputs=None, detail=r['what'], witness=dict(site=f"parsing.h:{r['line']}", kind=r['kind'], node=r.get('site'))))
    return dict(job=key, records=out, info=info)


def records_for(prop, modname='props.cxx'):
    try:
        recs, info = all_obligations()
    except CheckerError as e:
        # the deductive part cannot analyse this tree: reported as a checker error, but the bounded part of the property still runs (a violation it finds takes precedence)
        return [], [f'CHECKER-ERROR CheckerError: {e}'], dict(cxx_error=str(e))
    except Exception as e:       # noqa  an internal error of the verifier on code outside its subset is a checker error too, never a verdict about the property
        return [], [f'CHECKER-ERROR internal ({type(e).__name__}): {e}'], dict(cxx_error=f'{type(e).__name__}: {e}')
    n = len([r for r in recs if prop in r['props']])
    if n == 0:
        raise CheckerError(f'no obligations generated for {prop}')
    step = max(1, (n + 15) // 16)
    jobs = [('slice', (prop, i, i + step)) for i in range(0, n, step)]
    results = engine.run_jobs('props.cxx', jobs)
    records, errors = [], []
    for r in results:
        records.extend(r.get('records', []))
        if r.get('error'):
            errors.append(f"{r['error']} (job {r['job']})")
    return records, errors, info


HELPER_FUNCTIONS = {
    'C01': ['depccg/parsing.h::parse_sentence (completeness of a search iteration: goal/chart-complete, expand-root/sites/once; failure status after the loop)',
            'depccg/parsing.h::utils::argmax<float>', 'depccg/parsing.h::parsing::matrix::operator()', 'depccg/parsing.h::parsing::matrix::argmax',
            'depccg/parsing.h::parsing::compute_outside_probabilities (3 loops, ghost prefix/suffix sums)', 'depccg/parsing.h::parse_sentence (score setup region: 2 loops)'],
    'C09': ['depccg/parsing.h::utils::argmax<float>', 'depccg/parsing.h::parsing::matrix::operator()', 'depccg/parsing.h::parsing::matrix::argmax',
            'depccg/parsing.h::parse_sentence (score setup region: 2 loops)'],
    'C16': ['depccg/parsing.h::parse_sentence (score setup region: candidate queues)'],
    'C02': ['depccg/parsing.h::parsing::chart::cell::contains', 'depccg/parsing.h::parsing::chart::cell::emplace', 'depccg/parsing.h::parsing::chart::operator()',
            'depccg/parsing.h::parsing::chart::update'],
    'C10': ['depccg/parsing.h::parsing::chart::cell::contains', 'depccg/parsing.h::parsing::chart::cell::emplace', 'depccg/parsing.h::parsing::chart::cell::size',
            'depccg/parsing.h::parsing::chart::cell::sort (comparator: higher score first)',
            'depccg/parsing.h::parsing::chart::operator()', 'depccg/parsing.h::parsing::chart::update', 'depccg/parsing.h::parsing::chart::size',
            'depccg/parsing.h::parse_sentence (completeness of a search iteration; region after the search loop: failure status, sort, delivery)'],
}

CXX_ASSUMPTIONS = [
    'C++14 semantics of the subset (vc/cxxvc.py): unsigned as mathematical integers with no-wrap obligations, float as mathematical reals (no rounding, NaN, Inf)',
    'aggregate initialisation binds initialisers to cell_item fields in declaration order (field order read from clang\'s AST on every run)',
    'STL contracts (assumed): priority_queue::top is a maximum w.r.t. operator< and pop removes it; unordered_set::count / emplace; list::push_front / front / size; '
    'vector<cell*>::push_back; vector / unordered_map element access',
    'constructor initialiser lists are read, not executed: an owning parsing::matrix(rows, cols) has rows * cols floats; parsing::chart(length, nbest) has length * length cells '
    'and length + 1 start / end lists',
    'loop rule: the body of the search loop / leaf loop is executed once from an arbitrary state in which every agenda and chart item satisfies Inv; Inv is re-established at every push site; '
    'helper loops (argmax, compute_outside_probabilities, score setup) carry sidecar invariants and variants (contracts/parsing_h_helpers.py): init / preserved / variant / exit obligations',
    'the ghost symbols of the loop proofs (best_tag, best_dep, Ptag, Pdep, tag_out, dep_out, dep_leaf_out_score, candidate queues) MEAN the arrays at the end of the score setup region; '
    'each fact the loop proofs use about them is a setup-post obligation discharged from the code (no longer assumed); the induction principle for the three lemma-base / lemma-step pairs is the meta-rule',
    'precondition of parse_sentence: length >= 1, num_tags >= 1, finite scores (no NaN / infinity: every value >= numeric_limits<float>::lowest()); a row of -inf head scores would make argmax return -1',
    'grammar callbacks through scaffold: the k-th element of the result vector has rule_id = k (parsing.pyx enumerate) and the fields of the k-th grammar result; cached vectors equal fresh ones (C11/C14)',
    'std::exp is positive and monotone',
    'z3 / cvc5',
]
