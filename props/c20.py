"""C20 — PTB-style and Japanese-bank text read back to the same tree.

Deductive part (PyVC, contracts/readers_ja.py), Japanese half: printer and reader meet at the piece-level specification jtoks(t) of the bank text.
  printer   depccg/printer/ja.py::ja_of.rec             the text it returns, cut into pieces, is jtoks(node)
  reader    depccg/tools/ja/reader.py::_JaCCGLineReader.parse_leaf / parse_tree / next_node (inlined)
            requires jtoks(t) at the cursor; ensures a tree iso to t (shape, category text, rule symbol, word) and the cursor behind it (structural induction)
  lemmas    next-lemma-ja (the real body of next(target) on characters), jn-positive, first pieces of a subtree
The PTB half (stack reader), the bank annotations on categories and everything inside fields are decided by the bounded run."""
import time

from vc.sorts import CheckerError, get_world
from vc.pyvc import Interp
from vc import engine
from vc.engine import verify_contract
from contracts import cat as catc, printers as pr, readers_ja as rj
from props import c12

PROP = 'C20'
SPLIT_DEPTH = 6


def setup():
    w = get_world()
    catc.bind_world(w)
    table, impls, virtuals = catc.cat_contracts()
    I = Interp(w, table)
    pr.install_etree(I)
    rj.install_ja_reader_env(I)
    cs = [rj.Normalize(), rj.JaRec(), rj.JaNext(), rj.JaCheck(), rj.JaPeek(), rj.JaParseLeaf(), rj.JaParseTree()]
    for c in cs:
        I.contracts[c.name] = c
    return w, I, cs


def run_job(kind, key):
    w, I, cs = setup()
    if kind == 'prefixes':
        c = [x for x in cs if getattr(x, 'role', x.qualname) == key][0]
        return dict(job=key, parts=verify_contract(I, c, PROP, list_prefixes=SPLIT_DEPTH), records=[])
    if kind == 'contract':
        qual, case, prefix = key
        c = [x for x in cs if getattr(x, 'role', x.qualname) == qual][0]
        recs, npaths = verify_contract(I, c, PROP, only_case=case, prefix=prefix)
        for r in recs:
            r['witness'] = dict(function=c.name)
        return dict(job=key, records=recs, paths=npaths, lib=sorted(I.used_lib))
    if kind == 'next-lemma':
        c = rj.JaNextLemma()
        engine.Z3_MS = 1500          # character-level string lemma: z3's sequence solver rarely decides it, cvc5 --strings-exp does (both are tried)
        recs, npaths = verify_contract(I, c, PROP)
        for r in recs:
            r['name'] = r['name'].replace('_JaCCGLineReader.next/', '_JaCCGLineReader.next[next-lemma-ja]/')
            r['witness'] = dict(function=c.name)
        return dict(job=key, records=recs)
    if kind == 'lemmas':
        return dict(job=key, records=rj.ja_lemmas(I, PROP) + pr.tree_view_obligations(I, PROP) + pr.view_lemmas(PROP))
    raise CheckerError(kind)


def main(tier='quick', seed=0):
    t0 = time.time()
    records, errors = [], []
    parts = engine.run_jobs('props.c20', [('prefixes', '_JaCCGLineReader.parse_tree'), ('prefixes', 'ja_of.rec')])
    jobs = [('contract', ('_JaCCGLineReader.parse_leaf', None, None)), ('next-lemma', 'next'), ('lemmas', 'pieces')]
    for r in parts:
        if r.get('error'):
            errors.append(f"{r['error']} (job {r['job']})")
        for case, prefix in r.get('parts', []):
            jobs.append(('contract', (r['job'], case, prefix)))
    results = engine.run_jobs('props.c20', jobs)
    seen_vac = set()
    for r in results:
        for rec in r.get('records', []):
            records.append(rec)
        if r.get('error'):
            errors.append(f"{r['error']} (job {r['job']})")
    pr.replay_views(records)
    assumptions = [
        'deductive part (Japanese half): bank-format printer and reader against the piece-level specification jtoks(t) over the tree view (view checked against the real tree.py properties in this check as well); recursive calls replaced by contracts '
        '(structural induction; the induction principle is the meta-rule)',
        'ASSUMED abstraction of the reader cursor: next(target) / check / peek / line.find(" ", index) / line[index + 1:end] act on pieces (opening piece, blank, category field, leaf body, closing brace), each use with an '
        'obligation that the pieces at the cursor have the shape the contract abstracts; justified by next-lemma-ja (proved on the real body of next with z3 / cvc5 strings) for fields free of blanks, braces and slashes - '
        'the precondition of C20 on tokens',
        'preconditions on the printed fields: category texts are canonical (str(c)), contain no brace, blank or underscore and are not rule symbols; the rule symbols of inner nodes are among the reader\'s fixed set `combinators` '
        '(read from the module on every run)',
        'assumed contracts of callees: Category.parse(str(c)) returns a category with that text (C05); Tree.make_* build the view they are told to (view lemma of C07); Token(**fields) holds its fields; normalize is an opaque '
        'function of the word; DEPENDENCY.sub("", s) returns s when s has no "{"; the leaf body word/word/pos/inflection splits at "/" into four slash-free fields, the first being the word',
        'the PTB half (_parse_ptb, a stack machine over "word)))" items), the bank annotations ({Ik}, _I1(...)) and the file-level readers are decided by the BOUNDED stand-in (never counted as proved)',
    ]
    assumptions.append('Category.parse(str(c)) = c is used as a contract of depccg/cat.py: its bounded validation (bounded/c05_real.py: every category up to a size, blanks and redundant brackets, the shipped strings) runs inside this check as well')
    extra = dict(functions_under_contract=['depccg/printer/ja.py::ja_of.rec', 'depccg/tools/ja/reader.py::_JaCCGLineReader.parse_leaf', 'depccg/tools/ja/reader.py::_JaCCGLineReader.parse_tree',
                                           'depccg/tools/ja/reader.py::_JaCCGLineReader.next_node (inlined)', 'depccg/tools/ja/reader.py::_JaCCGLineReader.next (next-lemma-ja, characters)'],
                 bounded_functions=['depccg/printer/ptb.py::ptb_of', 'depccg/tools/reader.py::_parse_ptb / read_ptb', 'depccg/tools/ja/reader.py::read_ccgbank'])
    return c12.finish_with(PROP, tier, seed, t0, records, errors, extra, assumptions, ['printers_real.py', 'c05_real.py'], level='exploration')
