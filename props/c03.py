"""C03 — English combinatory rules are sound (and complete on identical matched parts)."""
import json
import os
import time
import z3

from vc.sorts import CheckerError, get_world
from vc.pyvc import Interp, FuncVal
from vc import engine
from vc.engine import verify_contract, verify_lemma
from contracts import cat as catc
from contracts import unification as uc
from contracts import grammar as gc

PROP = 'C03'
REL = 'depccg/grammar/en.py'
LANG = 'en'


def setup():
    w = get_world()
    catc.bind_world(w)
    gc.install_inj()
    table, impls, virtuals = catc.cat_contracts()
    for c in (uc.ScanDeep(), uc.Rec(), uc.GetItem(), uc.UniCall([])):
        table[c.name] = c
    I = Interp(w, table)
    return w, I, table


def nice_models(lang):
    """preference for counter-models built from ordinary atoms/features/slashes (they replay on the real code)"""
    def pref(inputs):
        w = get_world()
        nice = z3.RecFunction('nice_' + lang, w.Cat, z3.BoolSort()) if not hasattr(w, '_nice_' + lang) else getattr(w, '_nice_' + lang)
        if not hasattr(w, '_nice_' + lang):
            c = z3.Const('nice_c', w.Cat)
            b = w.acc('Atom', 'base')(c)
            f = w.acc('Atom', 'feature')(c)
            if lang == 'en':
                fs = [w.none_feat(), w.unary('X'), w.unary('dcl'), w.unary('nb'), w.unary('em')]
            else:
                T = lambda a, b_, c_: w.mk('TernaryFeature', kv1_0='mod', kv1_1=a, kv2_0='form', kv2_1=b_, kv3_0='fin', kv3_1=c_)
                fs = [T('nm', 'base', 'f'), T('X1', 'X2', 'X3'), T('adn', 'base', 't'), T('adv', 'base', 'f')]
            sl = w.acc('Functor', 'slash')(c)
            z3.RecAddDefinition(nice, [c], z3.If(w.recog('Atom')(c),
                                z3.And(z3.Or(*[b == z3.StringVal(n) for n in ('S', 'NP', 'N', 'PP', ',', 'conj')]), z3.Or(*[f == x for x in fs])),
                                z3.And(z3.Or(sl == z3.StringVal('/'), sl == z3.StringVal('\\')), nice(w.acc('Functor', 'left')(c)), nice(w.acc('Functor', 'right')(c)))))
            setattr(w, '_nice_' + lang, nice)
        return [nice(v) for v in inputs.values() if z3.is_expr(v) and v.sort() == w.Cat]
    return pref


def combinator_names(I, rel=REL):
    m = I.load_module(rel[:-3].replace('/', '.'))
    cs = m.env.lookup('combinators')
    if not (isinstance(cs, list) and cs and all(isinstance(c, FuncVal) for c in cs)):
        raise CheckerError('`combinators` is not a list of functions')
    return [c.qualname for c in cs]


def run_job(kind, key, prop=PROP, rel=REL, lang=LANG):
    w, I, table = setup()
    engine.PREFER[:] = [nice_models(lang)]
    if kind == 'sound':
        c = gc.Combinator(rel, key, lang)
        recs, npaths = verify_contract(I, c, prop)
        for r in recs:
            if r['verdict'] == 'failed' and r.get('inputs'):
                r['replay'] = replay_combinator(rel, key, lang, r['inputs'])
                if r['replay'].get('witness'):
                    r['witness'] = r['replay']['witness']
        return dict(job=key, records=recs, paths=npaths, lib=sorted(I.used_lib), inlined=sorted(I.inlined))
    if kind == 'complete':
        cs = {c.name: c for c in (gc.en_completeness() if lang == 'en' else gc.ja_completeness())}
        recs, npaths = verify_contract(I, cs[key], prop)
        return dict(job=key, records=recs, paths=npaths, lib=sorted(I.used_lib))
    if kind == 'apply':
        c = gc.ApplyBinary(rel, lang)
        recs, npaths = verify_contract(I, c, prop)
        return dict(job=key, records=recs, paths=npaths)
    if kind == 'lemma':
        lt = gc.grammar_lemmas(w)
        return dict(job=key, records=verify_lemma(w, lt[key], prop, lt))
    raise CheckerError(kind)


def replay_combinator(rel, fname, lang, inputs):
    if any(isinstance(v, str) and v.startswith('<') for v in inputs.values()):
        return dict(reproduced=False, note='model not ground')
    body = ('import json\nfrom vc import twin, twin_grammar\nfrom vc.twin import build\n'
            f'inputs = json.loads({json.dumps(json.dumps(inputs))})\n'
            'x, y = build(inputs["x"]), build(inputs["y"])\n'
            f'bad = twin_grammar.check_combinator({lang!r}, {fname!r}, x, y)\n'
            'print("REPRODUCED" if bad else "NOT-REPRODUCED", repr(x), repr(y), bad)\n'
            'print("WITNESS", json.dumps(dict(function=%r, x=twin.str_spec(x), y=twin.str_spec(y))))\n' % fname)
    rc, out, err = engine.run_real(body)
    wit = None
    for ln in out.splitlines():
        if ln.startswith('WITNESS '):
            wit = json.loads(ln[8:])
    return dict(reproduced='REPRODUCED' in out and 'NOT-REPRODUCED' not in out, stdout=out[-1500:], stderr=err[-1500:], script=body, witness=wit)


def main(tier='quick', seed=0, prop=PROP, rel=REL, lang=LANG, modname='props.c03'):
    t0 = time.time()
    w, I, table = setup()
    names = combinator_names(I, rel)
    comp = gc.en_completeness() if lang == 'en' else gc.ja_completeness()
    jobs = [('sound', n) for n in names] + [('complete', c.name) for c in comp] + [('apply', 'apply_binary_rules')] + \
           [('lemma', n) for n in gc.grammar_lemmas(w)]
    results = engine.run_jobs(modname, jobs)
    records, errors, lib, inlined = [], [], set(), set()
    paths = 0
    for r in results:
        records.extend(r.get('records', []))
        if r.get('error'):
            errors.append(f"{r['error']} (job {r['job']})")
        lib.update(r.get('lib', []))
        inlined.update(r.get('inlined', []))
        paths += r.get('paths', 0)
    # the rule proofs use Unification through its contract: the obligations of that contract are part of this check as well
    # (a change inside depccg/unification.py that breaks the contract must fail C03 / C04, not only C06)
    from props import c06, c13
    urecs, uerrs, ulib, uinl, upaths, upairs = c06.deductive_records(prop)
    records.extend(urecs)
    errors.extend(uerrs)
    lib.update(ulib)
    paths += upaths
    # ... and the Category / Feature methods through the contracts of depccg/cat.py: re-discharged here as well
    crecs, cerrs, clib, cinl, cpaths, cimpls, _w = c13.deductive_records(prop)
    records.extend(crecs)
    errors.extend(cerrs)
    lib.update(clib)
    paths += cpaths
    b, err = bounded(tier, seed, lang)
    binfo = None
    if err:
        errors.append(err)
    else:
        for i, fl in enumerate(b['failures']):
            records.append(dict(name=f'{prop}/bounded::{fl["kind"]}#{i}', kind='bounded', verdict='failed', backend='bounded', ms=0, inputs=None,
                                witness=fl.get('witness', fl), replay=dict(reproduced=True, stdout=json.dumps(fl)), detail=fl))
        binfo = dict(evaluations=b['evaluations'], distinct_nontrivial=b['distinct_nontrivial'], rule=b['rule'], label='bounded (never counted as proved)',
                     samples=b.get('samples', []))
    assumptions = [
        'CPython semantics of the encoded subset; z3 / cvc5',
        'Unification is used through its contract; the obligations of that contract (the C06 obligations for exactly the pattern pairs used by the grammars, scan_deep, __getitem__) are discharged again inside this check; INVM / IDM / AC are opaque predicates whose definitions are the postconditions of that contract',
        'INJ: str is injective on well-formed categories (corollary of C05), so comparisons with string literals are comparisons with the value the real Category.parse gives for the literal',
        'well-formedness precondition: atom names non-empty, slashes are / \\ |; inputs over one feature system',
        'the schema tables (contracts/grammar.py) are the oracle: written from the statement of the property and CCG theory',
        'structural induction schema for the lemmas (subst keeps the skeleton, substituted features come from the inputs, identity mapping substitutes nothing)',
    ]
    assumptions.extend(sorted(lib))
    extra = dict(functions_under_contract=[f'{rel}::{n}' for n in names] + [f'{rel}::apply_binary_rules', f'{rel}::_is_modifier / _is_punct / _is_type_raised (inlined)',
                                           'depccg/unification.py::Unification.__call__ / scan_deep / __getitem__ (contract obligations of C06, re-discharged here)',
                                           'depccg/cat.py::Category / Feature methods (contract obligations of C13, re-discharged here)'],
                 paths=paths, completeness_cases=[c.name for c in comp])
    return engine.finish(prop, tier, seed, t0, records, errors, extra, assumptions, bounded=binfo)


def bounded(tier, seed, lang):
    path = os.path.join(engine.VERIF, 'bounded', 'grammar_real.py')
    if not os.path.exists(path):
        return dict(evaluations=0, distinct_nontrivial=0, failures=[], rule='(no bounded part)'), None
    script = open(path).read()
    rc, out, err = engine.run_real(script, timeout=1500, env_extra=dict(VERIF_TIER=tier, VERIF_SEED=str(seed), VERIF_LANG=lang, VERIF_REPO=engine.REPO))
    try:
        return json.loads(out.strip().splitlines()[-1]), None
    except Exception:
        return None, f'CHECKER-ERROR bounded grammar run did not produce a result (rc={rc}): {err[-800:]}'
